"""C15 reproducibility — operation histories over Ciw's own seeding and copying (no DrawTap, real ciw.seed).

A spec is a plan: a prelude of other simulations run in the same process (other networks, the same
Network object, exact runs that change the decimal context, runs aborted mid-event by an invalid
sample), then the run under test twice after ciw.seed(s), optionally once more in a fresh
interpreter under another PYTHONHASHSEED.  All digests must agree.
"""
import hashlib
import json
import os
import random
import subprocess
import sys
from collections import Counter

from . import import_ciw

ciw = import_ciw()
INF = float("inf")


# ---------------------------------------------------------------------------------------
# generator
# ---------------------------------------------------------------------------------------
def g_time_dist(r, scale=1.0, allow_seq=True, depth=0):
    k = r.choice(["Exponential", "Exponential", "Uniform", "Deterministic", "Triangular", "Gamma", "Lognormal", "Weibull",
                  "Normal", "Erlang", "HyperExponential", "Coxian", "Pmf", "Empirical", "Sequential", "Sequential", "Sum", "Mixture"])
    if depth and k in ("Sum", "Mixture"):
        k = "Sequential"
    if k == "Sequential" and not allow_seq:
        k = "Uniform"
    if k == "Exponential":
        return [k, round(r.uniform(0.3, 3) / scale, 3)]
    if k == "Uniform":
        a = round(r.uniform(0, 1) * scale, 3)
        return [k, a, round(a + r.uniform(0.1, 2) * scale, 3)]
    if k == "Deterministic":
        return [k, round(r.uniform(0.2, 2) * scale, 2)]
    if k == "Triangular":
        a = round(r.uniform(0, 1) * scale, 3)
        b = round(a + r.uniform(0.1, 1) * scale, 3)
        return [k, a, b, round(b + r.uniform(0.1, 1) * scale, 3)]
    if k == "Gamma":
        return [k, round(r.uniform(0.5, 3), 2), round(r.uniform(0.2, 1) * scale, 2)]
    if k == "Lognormal":
        return [k, round(r.uniform(-1, 0.5), 2), round(r.uniform(0.2, 0.8), 2)]
    if k == "Weibull":
        return [k, round(r.uniform(0.5, 2) * scale, 2), round(r.uniform(0.7, 3), 2)]
    if k == "Normal":
        return [k, round(r.uniform(0.5, 2) * scale, 2), round(r.uniform(0.1, 1), 2)]
    if k == "Erlang":
        return [k, round(r.uniform(1, 5) / scale, 2), r.randint(1, 4)]
    if k == "HyperExponential":
        return [k, [round(r.uniform(0.5, 4) / scale, 2), round(r.uniform(0.5, 4) / scale, 2)], [0.25, 0.75]]
    if k == "Coxian":
        return [k, [round(r.uniform(1, 4) / scale, 2), round(r.uniform(1, 4) / scale, 2)], [0.5, 1.0]]
    if k == "Pmf":
        return [k, [round(r.uniform(0.1, 2) * scale, 2) for _ in range(3)], [0.25, 0.5, 0.25]]
    if k == "Empirical":
        return [k, [round(r.uniform(0.1, 2) * scale, 2) for _ in range(r.randint(2, 5))]]
    if k == "Sequential":
        return [k, [round(r.uniform(0.1, 2) * scale, 2) for _ in range(r.randint(1, 5))]]
    if k == "Sum":
        return [k, g_time_dist(r, scale / 2, allow_seq, 1), g_time_dist(r, scale / 2, allow_seq, 1)]
    return ["Mixture", [g_time_dist(r, scale, allow_seq, 1), g_time_dist(r, scale, allow_seq, 1)], [0.5, 0.5]]


def g_det_dist(r, scale=1.0):
    if r.random() < 0.7:
        return ["Sequential", [round(r.uniform(0.2, 2) * scale, 2) for _ in range(r.randint(2, 5))]]
    return ["Deterministic", round(r.uniform(0.3, 2) * scale, 2)]


def g_net(r, deterministic=False, small=False, poisson_ok=True):
    n = r.choice([1, 1, 2] if small else [1, 2, 2, 3])
    k = r.choice([1, 1, 2, 3])
    classes = ["K%d" % i for i in range(k)]
    gd = (lambda s=1.0: g_det_dist(r, s)) if deterministic else (lambda s=1.0: g_time_dist(r, s))
    N = {"n": n, "classes": classes}
    N["arr"] = {c: [gd(1.0) if r.random() < 0.75 else None for _ in range(n)] for c in classes}
    if all(d is None for c in classes for d in N["arr"][c]):
        N["arr"][classes[0]][0] = gd(1.0)
    if not deterministic and poisson_ok and r.random() < 0.12:
        N["arr"][classes[0]][0] = ["PoissonIntervals", [round(r.uniform(0.5, 3), 2), round(r.uniform(0.5, 3), 2)], [2.0, 5.0], 40.0]
    N["srv"] = {c: [gd(r.choice([0.5, 1, 1.5])) for _ in range(n)] for c in classes}
    servers = []
    for i in range(n):
        x = r.random()
        if x < 0.15:
            servers.append({"k": "sched", "cs": [r.choice([0, 1, 2]), r.choice([1, 2])], "ends": [3.0, 7.0],
                            "pre": r.choice([False, "resume", "restart", "resample"]), "off": r.choice([0.0, 0.0, 0.5, 1.25])})
        elif x < 0.22:
            servers.append("inf")
        else:
            servers.append(r.choice([1, 1, 2, 3]))
    N["servers"] = servers
    N["qcap"] = [r.choice([INF, INF, 0, 1, 2]) for _ in range(n)] if r.random() < 0.3 and not any(isinstance(s, dict) for s in servers) else None
    routing = {}
    for c in classes:
        x = r.random()
        if deterministic or x < 0.35:
            rs = []
            for i in range(n):
                y = r.random()
                if y < 0.35:
                    rs.append(["cycle", [r.choice(list(range(1, n + 1)) + [-1, -1]) for _ in range(r.randint(1, 3))]])
                elif y < 0.55:
                    rs.append(["direct", r.randint(1, n)] if not deterministic or r.random() < 0.3 else ["leave"])
                elif y < 0.7 and not deterministic:
                    probs = [r.choice([0.0, 0.25, 0.5]) for _ in range(n)]
                    while sum(probs) > 1:
                        probs[r.randrange(n)] = 0.0
                    rs.append(["prob", probs])
                elif y < 0.8 and not deterministic and not any(s == "inf" for s in servers):
                    rs.append([r.choice(["jsq", "lb"]), r.sample(range(1, n + 1), r.randint(1, n)), r.choice(["random", "order"])])
                else:
                    rs.append(["leave"])
            routing[c] = ["net", rs]
        elif x < 0.8:
            M = []
            for i in range(n):
                row = [r.choice([0.0, 0.0, 0.25, 0.5]) for _ in range(n)]
                while sum(row) > 1:
                    row[r.randrange(n)] = 0.0
                M.append(row)
            routing[c] = ["matrix", M]
        elif x < 0.9 or deterministic or any(s == "inf" for s in servers):
            routing[c] = ["pb", [[r.randint(1, n) for _ in range(r.randint(0, 3))] for _ in range(3)]]
        else:
            # flexible process-based: sets of nodes to visit, the next one chosen by a JSQ / LB router built on the fly
            routing[c] = ["fpb", [[sorted(r.sample(range(1, n + 1), r.randint(1, n))) for _ in range(r.randint(0, 3))] for _ in range(3)],
                          r.choice(["any", "all"]), r.choice(["jsq", "lb", "random"])]
    N["routing"] = routing
    kinds = set(v[0] for v in routing.values())
    N["prio"] = None
    if k > 1 and r.random() < 0.4:
        N["prio"] = {c: i % 2 for i, c in enumerate(classes)}
    N["batch"] = None
    if r.random() < 0.25:
        N["batch"] = {c: [r.choice([["Sequential", [1, 2, 1]], ["Deterministic", 2]] if deterministic else
                                   [["Sequential", [1, 2, 1]], ["Deterministic", 2], ["Pmf", [1, 2, 3], [0.5, 0.25, 0.25]], ["Binomial", 3, 0.5]])
                          for _ in range(n)] for c in classes}
    N["ren"] = None
    if r.random() < 0.35:
        N["ren"] = {c: [gd(2.0) if r.random() < 0.6 else None for _ in range(n)] for c in classes}
    N["ccm"] = None
    N["cct"] = None
    if k > 1 and not kinds & {"pb", "fpb"} and r.random() < 0.3:
        if deterministic:
            N["ccm"] = [{c: {d: (1.0 if d == classes[(j + 1) % k] else 0.0) for d in classes} for j, c in enumerate(classes)} for _ in range(n)]
        else:
            N["ccm"] = [{c: {d: (1.0 / k) for d in classes} for c in classes} for _ in range(n)]
    if k > 1 and not kinds & {"pb", "fpb"} and r.random() < 0.2:
        N["cct"] = {classes[0]: {classes[1]: gd(2.0)}}
        if k > 2 and r.random() < 0.6:
            N["cct"][classes[0]][classes[2]] = gd(2.0)     # two candidate changes: the engine draws both and takes the earlier
    N["baulk"] = None
    if not deterministic and r.random() < 0.15:
        N["baulk"] = {c: [[0.0, 0.5, 1.0] if r.random() < 0.6 else None for _ in range(n)] for c in classes}
    N["tracker"] = r.choice([None, "SystemPopulation", "NodePopulation", "NodeClassMatrix", "NaiveBlocking", "MatrixBlocking",
                             "NodePopulationSubset", "GroupedNodePopulation", "GroupedNodePopulation"])
    N["tracker_args"] = None
    if N["tracker"] == "NodePopulationSubset":
        N["tracker_args"] = [sorted(r.sample(range(n), r.randint(1, n)))]
    elif N["tracker"] == "GroupedNodePopulation":
        idx = list(range(n))
        r.shuffle(idx)
        cut = r.randint(0, n)
        N["tracker_args"] = [[g for g in (idx[:cut], idx[cut:]) if g]]
    return N


def gen_c15(r, tier):
    mode = r.choice(["repeat", "repeat", "reuse", "reuse_same", "isolation"])
    det = mode == "isolation"
    # PoissonIntervals draws its dates when it is constructed, so a re-used Network cannot consume the random
    # stream the way a fresh build does: out of domain for the re-use mode (narrowing, see DESIGN)
    S = {"kind": "c15", "mode": mode, "seed": r.randint(0, 10 ** 6), "main": g_net(r, deterministic=det, poisson_ok=(mode in ("repeat", "reuse_same"))),
         "T": float(r.choice([8, 15, 25])), "exact": r.choice([None, None, None, 12, 20]) if mode != "isolation" else None}
    pre = []
    for _ in range(r.randint(0, 3)):
        kind = r.choice(["other", "other", "same", "exact", "abort"])
        item = {"kind": kind, "seed": r.randint(0, 10 ** 6), "T": float(r.choice([3, 6, 10]))}
        if kind != "same":
            item["net"] = g_net(r, small=True)
        if kind == "exact":
            item["exact"] = r.choice([8, 10, 30])
        if kind == "abort":
            item["abort_after"] = r.randint(1, 8)
        pre.append(item)
    S["prelude"] = pre
    S["between"] = [dict(p) for p in pre[: r.randint(0, len(pre))]] if r.random() < 0.5 else []
    if r.random() < 0.6:
        S["between"].append({"kind": "same", "seed": r.randint(0, 10 ** 6), "T": float(r.choice([2, 5]))})
    S["fresh"] = r.random() < (0.02 if tier == "quick" else 0.04)
    S["reuse_tracker"] = r.random() < 0.4
    # drawn from a private stream so that the plans generated so far keep their seeds
    S["perm2"] = mode == "repeat" and random.Random(S["seed"] * 7 + 1).random() < 0.5
    if mode == "isolation":
        S["chunks"] = sorted(round(r.uniform(0, S["T"]), 2) for _ in range(r.randint(1, 4)))
    return S


# ---------------------------------------------------------------------------------------
# builder (real Ciw distributions and routers)
# ---------------------------------------------------------------------------------------
class AbortingDist(ciw.dists.Distribution):
    """F5 inside the prelude: returns an invalid sample after k calls, which aborts that simulation mid-event."""

    def __init__(self, k):
        self.k = k
        self.i = 0

    def sample(self, t=None, ind=None):
        self.i += 1
        return 0.5 if self.i <= self.k else -1.0


def mk_dist(d):
    D = ciw.dists
    if d is None:
        return None
    k = d[0]
    if k == "Sum":
        return mk_dist(d[1]) + mk_dist(d[2])
    if k == "Mixture":
        return D.MixtureDistribution([mk_dist(x) for x in d[1]], list(d[2]))
    if k in ("Sequential", "Empirical"):
        return getattr(D, k)(list(d[1]))
    if k in ("Pmf", "HyperExponential", "Coxian"):
        return getattr(D, k)(list(d[1]), list(d[2]))
    if k == "PoissonIntervals":
        return D.PoissonIntervals(rates=list(d[1]), endpoints=list(d[2]), max_sample_date=d[3])
    return getattr(D, k)(*d[1:])


def build_net(N, abort_after=None, perm=False):
    """perm: the same parameters with every per-class dictionary written in the reverse key order (equal as dictionaries)"""
    R = ciw.routing
    n = N["n"]
    classes = list(reversed(N["classes"])) if perm else list(N["classes"])
    first_class = N["classes"][0]
    rev = (lambda items: list(reversed(list(items)))) if perm else (lambda items: list(items))
    kw = {}
    kw["arrival_distributions"] = {c: [mk_dist(d) for d in N["arr"][c]] for c in classes}
    kw["service_distributions"] = {c: [mk_dist(d) for d in N["srv"][c]] for c in classes}
    if abort_after is not None:
        kw["service_distributions"][first_class][0] = AbortingDist(abort_after)
        for c in classes:
            if kw["arrival_distributions"][c][0] is None:
                kw["arrival_distributions"][c][0] = ciw.dists.Deterministic(0.7)
    servers = []
    for s in N["servers"]:
        if s == "inf":
            servers.append(INF)
        elif isinstance(s, dict):
            servers.append(ciw.Schedule(numbers_of_servers=list(s["cs"]), shift_end_dates=list(s["ends"]), preemption=s["pre"], offset=s["off"]))
        else:
            servers.append(s)
    kw["number_of_servers"] = servers
    if N.get("qcap"):
        kw["queue_capacities"] = list(N["qcap"])
    routing = {}
    for c in classes:
        rt = N["routing"][c]
        if rt[0] == "matrix":
            routing[c] = [list(row) for row in rt[1]]
        elif rt[0] == "net":
            rs = []
            for x in rt[1]:
                if x[0] == "cycle":
                    rs.append(R.Cycle(cycle=list(x[1])))
                elif x[0] == "direct":
                    rs.append(R.Direct(to=x[1]))
                elif x[0] == "prob":
                    rs.append(R.Probabilistic(destinations=list(range(1, n + 1)), probs=list(x[1])))
                elif x[0] == "jsq":
                    rs.append(R.JoinShortestQueue(destinations=list(x[1]), tie_break=x[2]))
                elif x[0] == "lb":
                    rs.append(R.LoadBalancing(destinations=list(x[1]), tie_break=x[2]))
                else:
                    rs.append(R.Leave())
            routing[c] = R.NetworkRouting(routers=rs)
        elif rt[0] == "fpb":
            routes = rt[1]
            routing[c] = R.FlexibleProcessBased(lambda ind, sim, routes=routes: [list(st) for st in routes[ind.id_number % len(routes)]], rule=rt[2], choice=rt[3])
        else:
            routes = rt[1]
            routing[c] = R.ProcessBased(lambda ind, sim, routes=routes: list(routes[ind.id_number % len(routes)]))
    kw["routing"] = routing
    if N.get("prio"):
        kw["priority_classes"] = dict(rev(N["prio"].items()))
    if N.get("batch"):
        kw["batching_distributions"] = {c: [mk_dist(d) for d in N["batch"][c]] for c in classes}
    if N.get("ren"):
        kw["reneging_time_distributions"] = {c: [mk_dist(d) for d in N["ren"][c]] for c in classes}
    if N.get("ccm"):
        kw["class_change_matrices"] = [{c: dict(rev(row.items())) for c, row in rev(m.items())} for m in N["ccm"]]
    if N.get("cct"):
        kw["class_change_time_distributions"] = {c: {d: mk_dist(x) for d, x in rev(row.items())} for c, row in rev(N["cct"].items())}
    if N.get("baulk"):
        def mkb(tab):
            if tab is None:
                return None
            return lambda n_, Q=None, next_ind=None, next_node=None: tab[min(n_, len(tab) - 1)]
        kw["baulking_functions"] = {c: [mkb(t) for t in N["baulk"][c]] for c in classes}
    return ciw.create_network(**kw)


def mk_sim(net, N, exact=None, tracker=None):
    kw = {}
    if tracker is not None:
        kw["tracker"] = tracker           # the caller hands the same tracker object to several simulations
    elif N.get("tracker"):
        kw["tracker"] = getattr(ciw.trackers, N["tracker"])(*[list(a) if not (a and isinstance(a[0], list)) else [list(g) for g in a] for a in (N.get("tracker_args") or [])])
    if exact:
        kw["exact"] = exact
    return ciw.Simulation(net, **kw)


def digest_of(Q):
    h = hashlib.blake2b(digest_size=16)
    recs = []
    for nd in Q.nodes[1:]:
        for i in nd.all_individuals:
            for r in i.data_records:
                recs.append(repr(tuple(r)))
    h.update(repr(recs).encode())
    h.update(repr(Q.current_time).encode())
    h.update(repr(Q.statetracker.history).encode())
    return h.hexdigest(), len(recs)


def run_item(item, main_net_obj, main_N):
    """one prelude simulation; exceptions from an aborting distribution are expected"""
    from decimal import getcontext
    ciw.seed(item["seed"])
    try:
        if item["kind"] == "same":
            Q = mk_sim(main_net_obj, main_N)
        else:
            net = build_net(item["net"], abort_after=item.get("abort_after"))
            Q = mk_sim(net, item["net"], exact=item.get("exact"))
        Q.simulate_until_max_time(item["T"])
        return "ran"
    except ValueError:
        return "aborted"
    finally:
        pass


def main_run(S, net=None, tracker=None, perm=False):
    """seed; build; run  -> (digest, number of records)"""
    from decimal import getcontext
    ciw.seed(S["seed"])
    if net is None:
        net = build_net(S["main"], perm=perm)
    Q = mk_sim(net, S["main"], exact=S.get("exact"), tracker=tracker)
    Q.simulate_until_max_time(S["T"])
    return digest_of(Q), net


def first_run(S, tracker=None):
    """the run under test, the way the plan's mode builds it (also what the fresh interpreter executes)"""
    if S["mode"] == "reuse_same":
        # one Network object built once; every simulation on it after seed(s) must give the same results
        ciw.seed(S["seed"] + 17)
        net = build_net(S["main"])
        return main_run(S, net=net, tracker=tracker)
    return main_run(S, tracker=tracker)


def fresh_interpreter_digest(S):
    code = ("import sys, json; sys.path.insert(0, %r); from cisim import c15; S = json.loads(sys.stdin.read()); "
            "print('DIGEST', c15.first_run(S)[0][0])") % os.path.dirname(os.path.dirname(os.path.abspath(__file__)))
    env = dict(os.environ)
    env["PYTHONHASHSEED"] = str(1 + S["seed"] % 1000)
    out = subprocess.run([sys.executable, "-B", "-c", code], input=json.dumps(S), capture_output=True, text=True, env=env, timeout=120)
    for line in out.stdout.splitlines():
        if line.startswith("DIGEST "):
            return line.split()[1]
    raise RuntimeError("fresh interpreter failed: %s" % out.stderr[-800:])


def run_c15(S, oracles=None, wall=60):
    import decimal
    import signal
    from .core import classify_exception, Hang, _alarm
    counts = Counter()
    res = {"status": "ok", "prop": None, "clause": None, "msg": "", "step": 0, "phase": "run", "events": 0, "simtime": S["T"],
           "feats": ["mode:" + S["mode"]], "sig": "", "probe": False}
    old = signal.signal(signal.SIGALRM, _alarm)
    signal.alarm(wall)
    saved_prec = decimal.getcontext().prec
    try:
        # reference: the run under test, before anything else happened in this process state
        mode = S["mode"]
        net_for_same = build_net(S["main"])      # a Network object that the prelude may simulate on
        for item in S["prelude"]:
            counts["F9:prelude:" + run_item(item, net_for_same, S["main"])] += 1
        import random as _random
        ciw.seed(S["seed"])
        st0 = _random.getstate()
        shared_tracker = None
        if S.get("reuse_tracker") and S["main"].get("tracker") and mode != "isolation":
            shared_tracker = getattr(ciw.trackers, S["main"]["tracker"])(*[list(a) if not (a and isinstance(a[0], list)) else [list(g) for g in a] for a in (S["main"].get("tracker_args") or [])])
            counts["F9:tracker_object_reused"] += 1
        (dA, nA), netA = first_run(S, tracker=shared_tracker)
        if mode == "isolation" and _random.getstate() != st0:
            # the solo run consumed the global random stream (a tie was broken at random): interleaved
            # simulations legitimately share that stream, so the comparison is out of domain
            res.update(status="discard", msg="isolation plan used the global random stream")
            res["counts"] = dict(counts)
            res["digest"] = dA
            return res
        for item in S["between"]:
            counts["F9:between:" + run_item(item, netA if mode in ("reuse", "reuse_same") else net_for_same, S["main"])] += 1
        if mode == "repeat":
            (dB, nB), _ = main_run(S, tracker=shared_tracker, perm=bool(S.get("perm2")))
            what = "second run after seed(s) on a freshly built network" + (" (same parameters, dictionaries written in the reverse key order)" if S.get("perm2") else "")
            if S.get("perm2"):
                counts["F9:second_build_with_reversed_dict_order"] += 1
        elif mode in ("reuse", "reuse_same"):
            (dB, nB), _ = main_run(S, net=netA, tracker=shared_tracker)
            what = "second run after seed(s) re-using the first run's Network object"
        else:
            # isolation: two simulations of ONE network advanced alternately must each equal the solo run
            ciw.seed(S["seed"])
            net = build_net(S["main"])
            Q1 = mk_sim(net, S["main"])
            Q2 = mk_sim(net, S["main"])
            for c in S["chunks"] + [S["T"]]:
                Q1.simulate_until_max_time(c)
                Q2.simulate_until_max_time(c)
            d1, n1 = digest_of(Q1)
            d2, n2 = digest_of(Q2)
            dB, nB = (d1, n1) if d1 != dA else (d2, n2)
            what = "one of two simulations sharing a Network and advanced alternately (deterministic distributions and routers)"
        res["digest"] = dA
        counts["C15:records_compared"] += nA
        res["probe"] = bool(S["prelude"] or S["between"]) and nA >= 10
        if dA != dB:
            res.update(status="violation", prop="C15", clause="not-reproducible:" + mode,
                       msg="first run digest %s (%d records) != %s: %s (%d records)" % (dA, nA, what, dB, nB))
        elif S.get("fresh"):
            dC = fresh_interpreter_digest(S)
            counts["C15:fresh_interpreter_runs"] += 1
            if dC != dA:
                res.update(status="violation", prop="C15", clause="not-reproducible:fresh-interpreter",
                           msg="in-process digest %s != fresh interpreter (other PYTHONHASHSEED) %s" % (dA, dC))
    except Hang:
        res.update(status="hang", prop="C14", clause="hang", msg="wall guard")
    except Exception as e:
        who, site = classify_exception(e)
        if who == "engine":
            res.update(status="crash", prop="C14", clause="crash:" + site, msg="%s: %s" % (type(e).__name__, str(e)[:200]))
        else:
            import traceback
            res.update(status="harness", clause=site, msg="".join(traceback.format_exception(type(e), e, e.__traceback__))[-3000:])
    finally:
        signal.alarm(0)
        signal.signal(signal.SIGALRM, old)
        decimal.getcontext().prec = saved_prec
    res["counts"] = dict(counts)
    res.setdefault("digest", "")
    return res


def features15(S):
    f = {"mode:" + S["mode"]}
    for item in S["prelude"] + S["between"]:
        f.add("prelude:" + item["kind"])
    N = S["main"]
    for c, rt in N["routing"].items():
        f.add("rt:" + rt[0])
        if rt[0] == "net":
            for x in rt[1]:
                f.add("nr:" + x[0])

    def walk(d):
        if isinstance(d, list) and d and isinstance(d[0], str):
            f.add("dist:" + d[0])
            for x in d[1:]:
                walk(x)
        elif isinstance(d, list):
            for x in d:
                walk(x)
        elif isinstance(d, dict):
            for x in d.values():
                walk(x)
    for key in ("arr", "srv", "batch", "ren", "cct"):
        if N.get(key):
            f.add(key)
            walk(N[key])
    for key in ("ccm", "prio", "baulk", "qcap", "tracker"):
        if N.get(key):
            f.add(key)
    if S.get("exact"):
        f.add("exact")
    return f


def minimise15(S, runner, prop, clause, budget_s):
    import copy
    import time
    deadline = time.time() + budget_s
    runs = [0]

    def ok(T):
        runs[0] += 1
        r = runner(T)
        return r["status"] in ("violation", "crash", "hang") and r["prop"] == prop and r["clause"] == clause

    cur = S
    if not ok(cur):
        return S, runner(S), runs[0]
    progress = True
    while progress and time.time() < deadline:
        progress = False
        cands = []
        for key in ("prelude", "between"):
            for i in range(len(cur[key])):
                T = copy.deepcopy(cur)
                del T[key][i]
                cands.append(T)
        if cur["T"] > 2:
            T = copy.deepcopy(cur)
            T["T"] = float(int(cur["T"] / 2) or 1)
            if T.get("chunks"):
                T["chunks"] = [c for c in T["chunks"] if c < T["T"]]
            cands.append(T)
        N = cur["main"]
        for key in ("batch", "ren", "ccm", "cct", "baulk", "prio", "qcap", "tracker"):
            if N.get(key):
                T = copy.deepcopy(cur)
                T["main"][key] = None
                cands.append(T)
        if cur.get("exact"):
            T = copy.deepcopy(cur)
            T["exact"] = None
            cands.append(T)
        if cur.get("reuse_tracker"):
            T = copy.deepcopy(cur)
            T["reuse_tracker"] = False
            cands.append(T)
        if cur.get("fresh") and not clause.endswith("fresh-interpreter"):
            T = copy.deepcopy(cur)
            T["fresh"] = False
            cands.append(T)
        for c in N["classes"]:
            for i in range(N["n"]):
                for key, simple in (("arr", ["Deterministic", 1.0]), ("srv", ["Deterministic", 0.7])):
                    if N[key][c][i] is not None and N[key][c][i] != simple:
                        T = copy.deepcopy(cur)
                        T["main"][key][c][i] = simple
                        cands.append(T)
            if N["routing"][c] != ["matrix", [[0.0] * N["n"] for _ in range(N["n"])]] and not (N.get("ccm") or N.get("cct")):
                T = copy.deepcopy(cur)
                T["main"]["routing"][c] = ["matrix", [[0.0] * N["n"] for _ in range(N["n"])]]
                cands.append(T)
        for T in cands:
            if time.time() > deadline:
                break
            try:
                if ok(T):
                    cur = T
                    progress = True
                    break
            except Exception:
                pass
    return cur, runner(cur), runs[0]
