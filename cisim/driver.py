"""Batch driver: seeded search over specs on a process pool, classification, minimisation,
replay files, known findings, evidence."""
import faulthandler
import json
import multiprocessing
import os
import random
import sys
import time
from collections import Counter
from concurrent.futures import ProcessPoolExecutor, wait, FIRST_COMPLETED

from . import CIW_REPO
from .seeds import sub

HERE = os.path.dirname(os.path.dirname(os.path.abspath(__file__)))
_OUT = os.environ.get("VERIF_OUT") or HERE     # sensitivity runs against mutants write elsewhere
REPLAYS = os.path.join(_OUT, "replays")
EVIDENCE = os.path.join(_OUT, "evidence")
FINDINGS_FILE = os.path.join(HERE, "known_findings.json")

DEFAULT_SEED = 20261002


def jdump(obj, path):
    tmp = path + ".tmp%d" % os.getpid()
    with open(tmp, "w") as f:
        json.dump(obj, f, indent=1, sort_keys=True)
        f.write("\n")
    os.replace(tmp, path)


def spec_for(prop, tier, seed, i):
    from .profiles import PROFILES
    from .gen import gen_spec, sanitize, ALL_RULES

    pr = PROFILES[prop]
    rs = sub(seed, prop, tier, i)
    r = random.Random(rs)
    if pr.gen is not None:
        return rs, pr.gen(r, tier)
    P = pr.pick(r, tier)
    S = gen_spec(r, P)
    if not P.get("allow_known") and not os.environ.get("VERIF_NO_SANITIZE"):
        rules = P.get("rules", ALL_RULES)
        off = os.environ.get("VERIF_RULES_OFF")
        if off:
            rules = tuple(x for x in rules if x not in off.split(","))
        S = sanitize(S, rules)
    if pr.post is not None:
        S = pr.post(S, r, tier)
    return rs, S


def _chunk(args):
    prop, tier, seed, lo, hi = args
    faulthandler.enable()
    from .profiles import PROFILES
    from .core import run_spec

    pr = PROFILES[prop]
    agg = {"status": Counter(), "counts": Counter(), "events": 0, "simtime": 0.0, "digests": [], "sigs": set(),
           "viol": [], "harness": [], "feat": Counter(), "samples": [], "n": 0, "states": set()}
    hangs = 0
    for i in range(lo, hi):
        if hangs >= 3:
            # every hang costs seconds of CPU: three in one chunk are reported at once instead of stalling the batch
            agg["status"]["skipped_after_hangs"] += hi - i
            break
        rs, S = spec_for(prop, tier, seed, i)
        if S is None:
            agg["status"]["skipped"] += 1
            continue
        try:
            res = pr.run(S)
        except Exception as e:       # a runner must never take the worker (and with it the whole batch) down
            import traceback
            res = {"status": "harness", "prop": None, "clause": "runner-raised:" + type(e).__name__,
                   "msg": "".join(traceback.format_exception(type(e), e, e.__traceback__))[-3000:], "step": 0}
        agg["n"] += 1
        st = res["status"]
        if st == "hang":
            hangs += 1
        if st in ("violation", "crash", "hang") and res.get("prop") != prop:
            # another property's matter (e.g. an engine crash while checking C05): counted, not reported here
            agg["status"]["other:" + str(res.get("prop"))] += 1
            agg["counts"]["other:" + str(res.get("clause"))[:60]] += 1
            continue
        agg["status"][st] += 1
        agg["events"] += res.get("events", 0)
        agg["simtime"] += res.get("simtime", 0.0)
        for k, v in res.get("counts", {}).items():
            if isinstance(v, (int, float)):
                agg["counts"][k] += v
        for f in res.get("feats", ()):
            agg["feat"][f] += 1
        if st in ("ok", "cap") and res.get("probe"):
            agg["digests"].append(res["digest"])
        if len(agg["sigs"]) < 20000:
            agg["sigs"].add(res.get("sig"))
        if len(agg["states"]) < 100000:
            agg["states"].update(res.get("states", ()))
        if st in ("violation", "crash", "hang"):
            if len(agg["viol"]) < 40:
                agg["viol"].append({"i": i, "run_seed": rs, "spec": S, "clause": res["clause"], "msg": res["msg"], "step": res["step"]})
            else:
                agg["counts"]["viol_overflow"] += 1
        elif st == "harness":
            if len(agg["harness"]) < 5:
                agg["harness"].append({"i": i, "clause": res["clause"], "msg": res["msg"]})
        if len(agg["samples"]) < 1 and st == "ok" and res.get("probe"):
            agg["samples"].append({"index": i, "run_seed": rs, "digest": res["digest"], "events": res["events"],
                                   "features": res["feats"], "spec": S})
    agg["sigs"] = list(agg["sigs"])
    agg["states"] = list(agg["states"])
    return agg


def load_findings():
    if os.path.exists(FINDINGS_FILE):
        with open(FINDINGS_FILE) as f:
            return json.load(f)
    return {"open": [], "fixed": []}


def match_finding(entry, prop, clause, feats_list):
    if entry["property"] != prop:
        return False
    if not any(clause == c or (c.endswith("*") and clause.startswith(c[:-1])) for c in entry["clauses"]):
        return False
    req = set(entry.get("requires", []))
    return any(req <= set(fs) for fs in feats_list)


def replay_file(path, prop=None, lift_cap=False):
    """-> (failed?, result, doc)"""
    from .profiles import PROFILES

    with open(path) as f:
        doc = json.load(f)
    p = prop or doc["property"]
    spec = doc["spec"]
    if lift_cap:   # regression replay of a fixed finding: run past the step at which it used to fail
        spec = dict(spec, cap=max(spec.get("cap", 0), 400))
    res = PROFILES[p].run(spec)
    exp = doc.get("expected", {})
    failed = res["status"] in ("violation", "crash", "hang") and res["prop"] == p and \
        (exp.get("clause") is None or res["clause"] == exp["clause"])
    return failed, res, doc


def explore(prop, tier, seed, workers=None, out=print):
    from .profiles import PROFILES
    from .gen import features
    from .minimise import minimise

    pr = PROFILES[prop]
    bud = pr.budget[tier]
    nruns, wall = bud["runs"], bud["wall"]
    nruns = int(os.environ.get("VERIF_RUNS", nruns))
    wall = float(os.environ.get("VERIF_WALL", wall))
    workers = workers or int(os.environ.get("VERIF_WORKERS", min(16, os.cpu_count() or 1)))
    t0 = time.time()
    findings = load_findings()
    exit_code = 0
    harness = []
    known_lines = []
    viol_lines = []
    regress = []

    # 1. pinned reproducers: open findings must still fail (else silently nothing), fixed ones must pass
    for e in findings.get("open", []):
        if e["property"] != prop:
            continue
        failed, res, doc = replay_file(os.path.join(HERE, e["reproducer"]), prop)
        if failed:
            known_lines.append("KNOWN-FINDING: property=%s %s [%s: %s]" % (prop, e["what"], e["id"], res["clause"]))
    for e in findings.get("fixed", []):
        if e["property"] != prop or not e.get("reproducer"):
            continue
        path = os.path.join(HERE, e["reproducer"])
        failed, res, doc = replay_file(path, prop, lift_cap=True)
        if not failed and res["status"] == "harness":
            harness.append({"i": -1, "clause": res["clause"], "msg": res["msg"]})
        regress.append({"reproducer": e["reproducer"], "failed_again": failed})
        if failed:
            viol_lines.append("VIOLATION property=%s replay=%s" % (prop, path))
            out("regression of fixed finding: %s -> %s.%s %s" % (e["what"], prop, res["clause"], res["msg"][:200]))
            exit_code = 1

    # 2. exploration
    tot = {"status": Counter(), "counts": Counter(), "events": 0, "simtime": 0.0, "feat": Counter(), "n": 0}
    digests = set()
    sigs = set()
    states = set()
    viols = []
    samples = []
    chunk = bud.get("chunk", 250)
    tasks = [(prop, tier, seed, lo, min(lo + chunk, nruns)) for lo in range(0, nruns, chunk)]
    timed_out = False
    ctx = multiprocessing.get_context("fork")
    def absorb(agg):
        for k in ("status", "counts", "feat"):
            tot[k].update(agg[k])
        tot["events"] += agg["events"]
        tot["simtime"] += agg["simtime"]
        tot["n"] += agg["n"]
        digests.update(agg["digests"])
        sigs.update(agg["sigs"])
        if len(states) < 2000000:
            states.update(agg["states"])
        viols.extend(agg["viol"])
        harness.extend(agg["harness"])
        if len(samples) < 3:
            samples.extend(agg["samples"])

    with ProcessPoolExecutor(max_workers=workers, mp_context=ctx) as ex:
        pending = set()
        it = iter(tasks)
        more = True
        while more or pending:
            while more and len(pending) < workers * 2 and not timed_out:
                try:
                    pending.add(ex.submit(_chunk, next(it)))
                except StopIteration:
                    more = False
            if not pending:
                break
            done, pending = wait(pending, timeout=300, return_when=FIRST_COMPLETED)
            if not done:
                harness.append({"i": -1, "clause": "worker-stalled", "msg": "no chunk finished within 300s"})
                for f in pending:
                    f.cancel()
                break
            for f in done:
                try:
                    absorb(f.result())
                except Exception as e:  # a dead worker is a harness error
                    harness.append({"i": -1, "clause": "worker-died", "msg": repr(e)})
                    more = False
            if time.time() - t0 > wall and not timed_out:
                timed_out = True
                more = False
                for f in list(pending):
                    if f.cancel():
                        pending.discard(f)
    explore_s = time.time() - t0

    # 3. classify violations: one representative per clause, minimise, write replay, match known findings
    by_clause = {}
    for v in sorted(viols, key=lambda v: v["i"]):
        by_clause.setdefault(v["clause"], []).append(v)
    reported = []
    known_hits = Counter()
    os.makedirs(REPLAYS, exist_ok=True)
    mbudget = 20.0 if tier == "quick" else 40.0
    for clause, vs in sorted(by_clause.items()):
        if len(reported) >= 8:
            break
        # violations inside the region of an open finding are attributed to it one by one (by the features of their own
        # spec); whatever is left is a different violation of the same clause and is reported
        rest = []
        for x in vs:
            fx = sorted(pr.features(x["spec"]))
            hit = [e for e in findings.get("open", []) if match_finding(e, prop, clause, [fx])]
            if hit:
                known_hits[hit[0]["id"]] += 1
            else:
                rest.append(x)
        if not rest:
            continue
        vs = rest
        v = vs[0]
        feats0 = sorted(pr.features(v["spec"]))
        ms, mres, nr = pr.minimise(v["spec"], clause, mbudget)
        featsm = sorted(pr.features(ms))
        hit = [e for e in findings.get("open", []) if match_finding(e, prop, clause, [feats0, featsm])]
        if hit:
            known_hits[hit[0]["id"]] += len(vs)
            continue
        name = "%s-%s.json" % (prop, sub(seed, clause, json.dumps(ms, sort_keys=True)) % (16 ** 10))
        path = os.path.join(REPLAYS, name)
        jdump({"property": prop, "clause": clause, "msg": mres.get("msg", v["msg"]), "seed": seed, "tier": tier,
               "index": v["i"], "run_seed": v["run_seed"], "original_spec": v["spec"], "spec": ms,
               "minimise_runs": nr,
               "expected": {"clause": mres.get("clause"), "step": mres.get("step"), "digest": mres.get("digest")}}, path)
        reported.append({"clause": clause, "replay": path, "count": len(vs), "msg": mres.get("msg", "")[:300], "features": featsm})
        viol_lines.append("VIOLATION property=%s replay=%s" % (prop, path))
        out("violation %s.%s x%d: %s" % (prop, clause, len(vs), mres.get("msg", "")[:300]))
        exit_code = 1
    for e in findings.get("open", []):
        if e["property"] == prop and known_hits.get(e["id"]) and not any(e["id"] in l for l in known_lines):
            known_lines.append("KNOWN-FINDING: property=%s %s [%s]" % (prop, e["what"], e["id"]))

    if harness:
        out("HARNESS-ERROR in %d run(s), e.g. %s\n%s" % (len(harness), harness[0]["clause"], harness[0]["msg"][-1500:]))
        if exit_code == 0:
            exit_code = 2
    if tot["n"] < bud.get("min_runs", 200) and exit_code == 0:
        out("HARNESS-ERROR: only %d runs completed in %.0fs" % (tot["n"], explore_s))
        exit_code = 2

    wall_s = time.time() - t0
    ev = {
        "property_id": prop, "tier": tier, "seed": seed, "level": "exploration",
        "wall_s": round(wall_s, 2), "violations": len(reported),
        "coverage": {
            "evaluations": tot["n"],
            "distinct_nontrivial": len(digests),
            "rule": pr.rule,
            "samples": samples[:3] or [{"note": "no probe-positive sample in this run"}],
            "runs_per_hour": int(tot["n"] / max(explore_s, 1e-9) * 3600),
            "seeds_per_hour": int(tot["n"] / max(explore_s, 1e-9) * 3600),
            "b_events_executed": tot["events"],
            "simulated_time_covered": round(tot["simtime"], 3),
            "status_counts": dict(tot["status"]),
            "fault_and_probe_counters": {k: v for k, v in sorted(tot["counts"].items())},
            "feature_frequency": {k: v for k, v in sorted(tot["feat"].items())},
            "distinct_event_order_signatures": len(sigs),
            "distinct_event_order_signatures_note": "lower bound, per-worker sets capped at 20000",
            "distinct_abstract_states": len(states),
            "distinct_abstract_states_note": "per-node (population, customers holding a server, blocked customers) vectors after each event, 64-bit hashes, first 400 per run, capped sets: a lower bound",
            "inconclusive_step_cap_runs": tot["status"].get("cap", 0),
            "discarded_out_of_domain_runs": tot["status"].get("discard", 0),
            "known_findings_reconfirmed": known_lines,
            "known_finding_hits_in_exploration": dict(known_hits),
            "fixed_finding_regression_replays": regress,
            "violations_reported": reported,
            "budget": {"runs": nruns, "wall_s": wall, "stopped_by_wall": timed_out, "workers": workers},
            "components": pr.components,
            "ciw_repo": CIW_REPO,
        },
        "assumptions": pr.assumptions,
    }
    os.makedirs(EVIDENCE, exist_ok=True)
    jdump(ev, os.path.join(EVIDENCE, "%s.json" % prop))
    for l in known_lines:
        out(l)
    for l in viol_lines:
        out(l)
    out("%s %s: %d runs (%d probe-positive distinct), %d events, %.1fs, statuses %s -> exit %d" % (
        prop, tier, tot["n"], len(digests), tot["events"], wall_s, dict(tot["status"]), exit_code))
    return exit_code
