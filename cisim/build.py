"""Seams and builder: turns a spec into Ciw objects through the public API only.

Seams (all pre-existing extension points of Ciw):
  S1 TapeDist      — Distribution subclass serving samples from a tape, logging every call
  S3 wrappers      — discipline / baulking / server-priority callables that log
  S4 TapTracker    — dynamic subclass of the real tracker; TapDetector likewise
  S6 DrawTap       — bound to ciw.auxiliary.random / ciw.arrival_node.random in this process
"""
import random
import sys

from . import import_ciw

ciw = import_ciw()

INF = float("inf")
ONE_MINUS = 1.0 - 2.0 ** -53


class RunLog:
    """Ordered history of one run; one global sequence counter; never draws, never reads a clock."""

    def __init__(self):
        self.seq = 0
        self.step = 0
        self.micro = []      # (seq, step, kind, ...)
        self.samples = {}    # stream key -> list of (idx, t, ind_id, value, seq, step)
        self.draws = []      # (seq, step, site, weighted, value)
        self.observers = []
        self.keep_micro = True
        self.last_cust = None

    def emit(self, kind, *args):
        self.seq += 1
        ev = (self.seq, self.step, kind) + args
        if self.keep_micro:
            self.micro.append(ev)
        for o in self.observers:
            o(ev)
        return ev


class TapeDist(ciw.dists.Distribution):
    """S1: serves samples from a tape.  key = (kind, node, class[, to_class])."""

    def __init__(self, tape, key, log):
        self.tape = tape
        self.key = key
        self.log = log
        self.i = 0
        self.calls = log.samples.setdefault(key, [])
        self.rng = random.Random(tape["seed"]) if "seed" in tape else None
        self.vals = tape.get("vals")
        self.adopted = False

    def __deepcopy__(self, memo):
        # Simulation deep-copies arrival/service/batch distributions.  The simulation under test adopts this very
        # object (position and log stay with the harness); any further Simulation built from the same Network
        # (the 'spawn' fault) gets an inert clone that draws from its own PRNG and logs nothing.
        if not self.adopted:
            self.adopted = True
            return self
        return InertDist(self.tape)

    def __repr__(self):
        return "TapeDist%r" % (self.key,)

    def _value(self, t, ind=None):
        tp = self.tape
        i = self.i
        if self.vals is not None:
            return self.vals[i] if i < len(self.vals) else tp.get("then", 1.0)
        fam = tp["fam"]
        if fam == "lat":
            kk = self.rng.randint(tp["kmin"], tp["kmax"])
            if "tdep" in tp and t is not None:
                kk += int(t) % tp["tdep"]
            if tp.get("sdep") and ind is not None:
                # state-dependent: looks at the population of the node the customer is at, through the public objects
                try:
                    kk += ind.simulation.nodes[ind.node].number_of_individuals % 2
                except Exception:
                    pass
            v = kk / tp["q"]
            if tp.get("ints") and kk % tp["q"] == 0:
                v = kk // tp["q"]
        elif fam == "cont":
            v = self.rng.uniform(tp["lo"], tp["hi"])
        elif fam == "int":
            v = self.rng.randint(tp["kmin"], tp["kmax"])
        elif fam == "const":
            v = tp["v"]
        else:
            raise RuntimeError("unknown tape family %r" % fam)
        if "inf_after" in tp and i >= tp["inf_after"]:
            v = INF
        bad = tp.get("bad_at")
        if bad is not None and bad["i"] == i:
            v = bad["v"]
        elif tp.get("np") and isinstance(v, float):
            import numpy
            v = numpy.float64(v)       # a float subclass: what a distribution computing with numpy returns
        return v

    def sample(self, t=None, ind=None):
        v = self._value(t, ind)
        log = self.log
        log.seq += 1
        self.calls.append((self.i, t, getattr(ind, "id_number", None), v, log.seq, log.step, getattr(ind, "customer_class", None)))
        self.i += 1
        return v


class InertDist(ciw.dists.Distribution):
    """What a second Simulation built from the same Network gets: valid samples, no log, no shared state."""

    def __init__(self, tape):
        self.rng = random.Random(12345)
        self.batch = tape.get("fam") == "int" or (tape.get("vals") and all(isinstance(v, int) for v in tape["vals"]))

    def sample(self, t=None, ind=None):
        return 1 if self.batch else 0.5 + self.rng.random()


class DrawTap:
    """S6: stands in for the `random` module inside ciw.auxiliary and for `random()` in ciw.arrival_node."""

    TIE_SITES = ("find_next_active_node", "decide_between_simultaneous_individuals")

    def __init__(self, cfg, log):
        self.cfg = cfg
        self.log = log
        self.vals = cfg.get("vals")
        self.i = 0
        self.rng = random.Random(cfg.get("seed", 0))
        self.policy = cfg.get("policy", "uniform")
        self.brate = cfg.get("brate", 0.0)
        self.flip = 0
        self.injected = 0

    # the module-like surface used by ciw.auxiliary
    def seed(self, z):
        pass

    def normalvariate(self, mu, sd):
        return self.rng.normalvariate(mu, sd)

    def random(self):
        f = sys._getframe(1)
        site = f.f_code.co_name
        weighted = True
        if site == "random_choice":
            weighted = f.f_locals.get("probs") is not None
            b = f.f_back
            site = b.f_code.co_name if b is not None else "?"
        i = self.i
        self.i += 1
        if self.vals is not None:
            v = self.vals[i] if i < len(self.vals) else self.cfg.get("then", 0.5)
        else:
            v = self.rng.random()
            if not weighted and site in self.TIE_SITES:
                pol = self.policy
                if pol == "first":
                    v = 0.0
                elif pol == "last":
                    v = ONE_MINUS
                elif pol == "alternate":
                    self.flip ^= 1
                    v = 0.0 if self.flip else ONE_MINUS
            elif weighted and self.brate and self.rng.random() < self.brate:
                v = 0.0 if self.rng.random() < 0.5 else ONE_MINUS
                self.injected += 1
        log = self.log
        log.seq += 1
        log.draws.append((log.seq, log.step, site, weighted, v))
        return v

    __call__ = random

    def install(self):
        import ciw.auxiliary
        import ciw.arrival_node

        self._saved = (ciw.auxiliary.random, ciw.arrival_node.random)
        ciw.auxiliary.random = self
        ciw.arrival_node.random = self.random

    def uninstall(self):
        import ciw.auxiliary
        import ciw.arrival_node

        ciw.auxiliary.random, ciw.arrival_node.random = self._saved


# ---------------------------------------------------------------------------------------
# S4 taps
# ---------------------------------------------------------------------------------------
_TAP_TRACKERS = {}


def tap_tracker_class(base):
    if base in _TAP_TRACKERS:
        return _TAP_TRACKERS[base]

    class Tap(base):
        _in_renege = False

        def change_state_accept(self, node, ind):
            self._log.emit("acc", node.id_number, ind.id_number)
            return base.change_state_accept(self, node, ind)

        def change_state_block(self, node, destination, ind):
            self._log.emit("blk", node.id_number, destination.id_number, ind.id_number)
            return base.change_state_block(self, node, destination, ind)

        def change_state_release(self, node, destination, ind, blocked):
            if not self._in_renege:
                self._log.emit("rel", node.id_number, destination.id_number, ind.id_number, bool(blocked))
            return base.change_state_release(self, node, destination, ind, blocked)

        def change_state_renege(self, node, destination, ind, blocked):
            self._log.emit("ren", node.id_number, destination.id_number, ind.id_number)
            self._in_renege = True
            try:
                return base.change_state_renege(self, node, destination, ind, blocked)
            finally:
                self._in_renege = False

        def change_state_classchange(self, node, ind):
            self._log.emit("cc", node.id_number, ind.id_number, ind.previous_class, ind.customer_class)
            return base.change_state_classchange(self, node, ind)

    Tap.__name__ = "Tap" + base.__name__
    _TAP_TRACKERS[base] = Tap
    return Tap


_TAP_DETECTORS = {}


def tap_detector_class(base):
    if base in _TAP_DETECTORS:
        return _TAP_DETECTORS[base]

    class Tap(base):
        def action_at_attach_server(self, node, server, individual):
            self._log.last_cust = individual
            self._log.emit("att", node.id_number, server.id_number, individual.id_number)
            return base.action_at_attach_server(self, node, server, individual)

        def action_at_blockage(self, individual, next_node):
            self._log.emit("dblk", next_node.id_number, individual.id_number)
            return base.action_at_blockage(self, individual, next_node)

        def action_at_detatch_server(self, server):
            c = server.cust
            self._log.last_cust = c
            self._log.emit("det", server.node.id_number, server.id_number, getattr(c, "id_number", None))
            return base.action_at_detatch_server(self, server)

    Tap.__name__ = "Tap" + base.__name__
    _TAP_DETECTORS[base] = Tap
    return Tap


# ---------------------------------------------------------------------------------------
# builder
# ---------------------------------------------------------------------------------------
def _jockey_class(base, to):
    class J(base):
        def next_node_for_jockeying(self, ind):
            return self.simulation.nodes[to]

    J.__name__ = "Jockey" + base.__name__
    return J


def _mk_node_router(rs, jock):
    R = ciw.routing
    k = rs["k"]
    if k == "prob":
        cls, kw = R.Probabilistic, dict(destinations=list(rs["dests"]), probs=list(rs["probs"]))
    elif k == "leave":
        cls, kw = R.Leave, {}
    elif k == "direct":
        cls, kw = R.Direct, dict(to=rs["to"])
    elif k == "jsq":
        cls, kw = R.JoinShortestQueue, dict(destinations=list(rs["dests"]), tie_break=rs["tb"])
    elif k == "lb":
        cls, kw = R.LoadBalancing, dict(destinations=list(rs["dests"]), tie_break=rs["tb"])
    elif k == "cycle":
        cls, kw = R.Cycle, dict(cycle=list(rs["cycle"]))
    else:
        raise RuntimeError("router kind %r" % k)
    if jock is not None:
        cls = _jockey_class(cls, jock)
    return cls(**kw)


class Built:
    pass


def build(S, log, hooks=None):
    """spec -> Built(network, simkw, taps...).  hooks: object with optional callbacks
    on_decision(node_id, individuals, t, chosen), on_baulk(node_id, cls, n, p, ind)."""
    n = S["n"]
    classes = S["classes"]
    B = Built()
    B.dists = {}

    def td(tape, key):
        if tape is None:
            return None
        d = TapeDist(tape, key, log)
        B.dists[key] = d
        return d

    kw = {}
    servers = []
    for i, s in enumerate(S["servers"]):
        if s["k"] == "int":
            servers.append(s["c"])
        elif s["k"] == "inf":
            servers.append(INF)
        elif s["k"] == "sched":
            if s.get("same_as") is not None and s["same_as"] < len(servers) and isinstance(servers[s["same_as"]], ciw.Schedule):
                servers.append(servers[s["same_as"]])      # one Schedule object used for two nodes
            else:
                servers.append(ciw.Schedule(numbers_of_servers=list(s["cs"]), shift_end_dates=list(s["ends"]),
                                            preemption=s["pre"], offset=s["off"]))
        elif s["k"] == "slot":
            servers.append(ciw.Slotted(slots=list(s["slots"]), slot_sizes=list(s["sizes"]), capacitated=s["cap"],
                                       preemption=s["pre"], offset=s["off"]))
    kw["number_of_servers"] = servers
    kw["arrival_distributions"] = {c: [td(S["arr"][c][i], ("arr", i + 1, c)) for i in range(n)] for c in classes}
    kw["service_distributions"] = {c: [td(S["srv"][c][i], ("srv", i + 1, c)) for i in range(n)] for c in classes}
    if S.get("batch"):
        kw["batching_distributions"] = {c: [td(S["batch"][c][i], ("bat", i + 1, c)) for i in range(n)] for c in classes}
    if S.get("ren"):
        kw["reneging_time_distributions"] = {c: [td(S["ren"][c][i], ("ren", i + 1, c)) for i in range(n)] for c in classes}
    if S.get("cct"):
        kw["class_change_time_distributions"] = {
            c: {d: td(t, ("cct", 0, c, d)) for d, t in row.items()} for c, row in S["cct"].items()}
    if S.get("prio"):
        order = [c for c in (S.get("prio_order") or classes) if c in S["prio"]] + [c for c in classes if c not in (S.get("prio_order") or classes)]
        pm = {c: S["prio"][c] for c in order}
        kw["priority_classes"] = (pm, list(S["preempt"])) if S.get("preempt") else pm
    if any(q != INF for q in S["qcap"]):
        kw["queue_capacities"] = list(S["qcap"])
    if S["syscap"] != INF:
        kw["system_capacity"] = S["syscap"]
    if S.get("ccm"):
        order = [c for c in (S.get("ccm_order") or classes) if c in classes] or classes
        kw["class_change_matrices"] = [{c: {d: m[c][d] for d in order} for c in order} for m in S["ccm"]]
    if any(S["ps"]):
        kw["ps_thresholds"] = list(S["ps_thr"])

    routing = {}
    B.routes_given = {}   # ind id -> route handed out by the process-based route function
    for c in classes:
        rt = S["routing"][c]
        if rt["k"] == "matrix":
            routing[c] = [list(row) for row in rt["M"]]
        elif rt["k"] == "net":
            jk = rt.get("jockey") or [None] * n
            routing[c] = ciw.routing.NetworkRouting(routers=[_mk_node_router(x, jk[i]) for i, x in enumerate(rt["routers"])])
        elif rt["k"] == "pb":
            def rf(ind, sim, routes=rt["routes"]):
                route = list(routes[ind.id_number % len(routes)])
                B.routes_given[ind.id_number] = list(route)
                return route
            routing[c] = ciw.routing.ProcessBased(rf)
        elif rt["k"] == "fpb":
            def rf2(ind, sim, routes=rt["routes"]):
                route = [list(s) for s in routes[ind.id_number % len(routes)]]
                B.routes_given[ind.id_number] = [list(s) for s in route]
                return route
            routing[c] = ciw.routing.FlexibleProcessBased(rf2, rule=rt["rule"], choice=rt["choice"])
    kw["routing"] = routing

    if S.get("baulk"):
        def mkb(node_id, cls, tab):
            if tab is None:
                return None
            ps = tab["ps"]

            def bf(n_, Q=None, next_ind=None, next_node=None):
                p = ps[min(n_, len(ps) - 1)] if isinstance(n_, int) and n_ >= 0 else ps[-1]
                ev = log.emit("baulkq", node_id, cls, n_, p, getattr(next_ind, "id_number", None))
                if hooks is not None:
                    hooks.on_baulk(ev)
                return p
            return bf
        kw["baulking_functions"] = {c: [mkb(i + 1, c, S["baulk"][c][i]) for i in range(n)] for c in classes}

    if S.get("disc") or (hooks is not None and getattr(hooks, "wrap_fifo", False)):
        names = S.get("disc") or ["FIFO"] * n

        def linger(individuals, t):
            # a custom discipline (documented signature): nobody starts unless at least two customers are waiting —
            # customers may linger beside a free server, which the built-in disciplines never allow
            return individuals[0] if len(individuals) >= 2 else None

        def mkd(node_id, name):
            real = linger if name == "LINGER" else getattr(ciw.disciplines, name)

            def disc(individuals, t):
                chosen = real(individuals, t)
                if hooks is not None:
                    hooks.on_decision(node_id, name, individuals, t, chosen)
                return chosen
            disc.__name__ = name
            return disc
        kw["service_disciplines"] = [mkd(i + 1, names[i]) for i in range(n)]

    if S.get("spf"):
        def mks(kind):
            if kind is None:
                return None
            if kind == "hi":
                return lambda srv, ind: -srv.id_number
            return lambda srv, ind: srv.id_number
        kw["server_priority_functions"] = [mks(x) for x in S["spf"]]

    B.netkw = kw
    B.network = ciw.create_network(**kw)

    simkw = {}
    if any(S["ps"]):
        simkw["node_class"] = [ciw.PSNode if p else ciw.Node for p in S["ps"]]
    T = ciw.trackers
    tr = S.get("tracker")
    if tr is None:
        base, targs = T.StateTracker, ()
    else:
        base = getattr(T, tr["k"])
        if tr["k"] == "NodePopulationSubset":
            targs = (list(tr["obs"]),)
        elif tr["k"] == "GroupedNodePopulation":
            targs = ([list(g) for g in tr["groups"]],)
        elif tr["k"] == "NodeClassMatrix" and tr.get("order"):
            targs = (list(tr["order"]),)
        else:
            targs = ()
    tracker = tap_tracker_class(base)(*targs)
    tracker._log = log
    simkw["tracker"] = tracker
    dbase = ciw.deadlock.StateDigraph if S.get("detector") == "StateDigraph" else ciw.deadlock.NoDetection
    det = tap_detector_class(dbase)()
    det._log = log
    simkw["deadlock_detector"] = det
    if S.get("exact"):
        simkw["exact"] = S["exact"]
    B.simkw = simkw
    B.tracker = tracker
    B.detector = det
    return B
