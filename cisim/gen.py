"""Swarm-style spec generator.  A spec is a JSON document: configuration + environment
tapes + operation plan + fault switches.  Everything is drawn from one random.Random.
"""
import copy

INF = float("inf")

# ----------------------------------------------------------------------------------
# profile defaults (the "wide" profile); per-property profiles override keys
# ----------------------------------------------------------------------------------
WIDE = dict(
    n=[1, 1, 2, 2, 3, 4],
    k=[1, 1, 2, 3],
    time={"lat": 0.6, "cont": 0.3, "dec": 0.1},
    prio=0.6, preempt=0.5,
    preempt_opts=[False, "resume", "restart", "resample", "reroute"],
    sched=0.25, sched_pre_opts=[False, False, "resume", "restart", "resample", "reroute"],
    slot=0.1, inf=0.1, zero=0.03,
    qcap=0.5, qcap_vals=[INF, 0, 1, 2, 3], syscap=0.2,
    route_kinds={"matrix": 0.4, "net": 0.35, "pb": 0.15, "fpb": 0.1},
    node_routers={"prob": 0.4, "leave": 0.15, "direct": 0.15, "jsq": 0.1, "lb": 0.1, "cycle": 0.1},
    jockey=0.3, batch=0.25, renege=0.3, baulk=0.2, ccm=0.3, cct=0.2, disc=0.3,
    ps=0.1, tracker=0.4, detector=0.1, exact=0.08, spf=0.1,
    f_zero=0.5,        # F2: lattice tapes may return 0
    f_infarr=0.1,      # F3: an arrival stream ends for ever
    f_batch0=0.5,      # F4: batch tapes may return 0
    f_bigclock=0.0,    # F11
    f_boundary=0.0,    # F10: rate of boundary draws
    f_bad=0.0,         # F5: one invalid sample
    policies=["uniform", "uniform", "first", "last", "alternate"],
    plan={"time": 0.8, "cust": 0.2, "deadlock": 0.0},
    horizon=[5.0, 12.0, 30.0],
    splits=1,
    mixed=0.25,       # a count-based call in between two horizon-based ones on the same Simulation
    spawn=0.5,
    tdep=0.15,
    restricted=False,
    ordinary_only=False,
    stepcap=1500,
)


def profile(**over):
    p = copy.deepcopy(WIDE)
    p.update(over)
    return p


def wchoice(r, weights):
    items = sorted(weights.items())
    tot = sum(w for _, w in items)
    x = r.random() * tot
    for k, w in items:
        x -= w
        if x < 0:
            return k
    return items[-1][0]


def mk_tape(r, mode, scale=1.0, zero=True, P=None):
    seed = r.getrandbits(48)
    if mode == "cont":
        lo = r.choice([0.0, 0.1, 0.5]) * scale
        t = {"fam": "cont", "lo": lo, "hi": lo + r.choice([0.5, 1.0, 3.0]) * scale, "seed": seed}
        if P is not None and P.get("np_samples") and r.random() < P["np_samples"]:
            t["np"] = True
        return t
    q = r.choice([1, 2, 4]) if mode == "lat" else r.choice([10, 10, 20, 100])
    unit = q if mode == "lat" else max(1, q // 4)
    kmax = max(1, int(r.choice([1, 2, 3, 5]) * unit * scale))
    kmin = r.choice([0, 0, 1]) if zero else 1
    t = {"fam": "lat", "q": q, "kmin": kmin, "kmax": kmax, "seed": seed}
    if P is not None and P.get("int_samples") and r.random() < P["int_samples"]:
        t["ints"] = True       # integral values are returned as Python ints (e.g. Deterministic(2))
    if P is not None and r.random() < P["tdep"]:
        t["tdep"] = r.choice([2, 3])
    if P is not None and P.get("np_samples") and r.random() < P["np_samples"]:
        t["np"] = True
    if P is not None and P.get("sdep") and r.random() < P["sdep"]:
        t["sdep"] = True
    return t


def gen_spec(r, P):
    F = lambda name: r.random() < P.get(name, 0.0)
    n = r.choice(P["n"])
    k = r.choice(P["k"])
    classes = ["C%d" % i for i in range(k)]
    mode = wchoice(r, P["time"])
    zero = r.random() < P["f_zero"]
    S = {"v": 1, "n": n, "classes": classes, "mode": mode}
    dests = list(range(1, n + 1))

    # exact arithmetic --------------------------------------------------------------
    S["exact"] = None
    if F("exact"):
        S["exact"] = r.choice([10, 12, 15, 20, 26, 30])
        if mode == "cont":
            mode = S["mode"] = "dec"

    # priorities ---------------------------------------------------------------------
    S["prio"] = None
    S["preempt"] = None
    if k > 1 and F("prio"):
        npr = r.randint(1, k)
        pm = list(range(npr)) + [r.randrange(npr) for _ in range(k - npr)]
        r.shuffle(pm)
        S["prio"] = {c: p for c, p in zip(classes, pm)}
        S["prio_order"] = r.sample(classes, k)     # key order of the priority mapping handed to create_network
        if F("preempt"):
            S["preempt"] = [r.choice(P["preempt_opts"]) for _ in range(n)]
    nprio = len(set(S["prio"].values())) if S["prio"] else 1

    # servers ------------------------------------------------------------------------
    servers = []
    ps = [False] * n
    for i in range(n):
        if not P["ordinary_only"] and nprio == 1 and not S["exact"] and F("ps"):
            ps[i] = True
            c = r.choice([INF, INF, 1, 2, 3])
            servers.append({"k": "inf"} if c == INF else {"k": "int", "c": c})
        elif F("sched"):
            m = r.randint(1, 4)
            if mode == "cont":
                ends = sorted(round(r.uniform(0.5, 10), 3) for _ in range(m))
                off = r.choice([0.0, 0.0, round(r.uniform(0.1, 3), 3)])
            elif mode == "dec":
                ends = sorted(r.sample([0.7, 1.5, 2.3, 3.1, 4.0, 5.2, 6.9, 8.3, 10.0], m))
                off = r.choice([0.0, 0.0, 0.3, 1.1])
            else:
                ends = sorted(float(e) for e in r.sample([1, 2, 3, 4, 5, 6, 8, 10], m))
                off = float(r.choice([0, 0, 1, 2.5]))
            if len(set(ends)) < m:
                ends = [float(j + 1) for j in range(m)]
            cs = [r.choice([0, 1, 1, 2, 3]) for _ in range(m)]
            servers.append({"k": "sched", "cs": cs, "ends": ends, "pre": r.choice(P["sched_pre_opts"]), "off": off})
        elif not P["ordinary_only"] and not P["restricted"] and F("slot"):
            m = r.randint(1, 3)
            if mode == "cont":
                slots = sorted(round(r.uniform(0.5, 8), 3) for _ in range(m))
                off = r.choice([0.0, round(r.uniform(0.1, 2), 3)])
            else:
                slots = sorted(float(e) for e in r.sample([1, 2, 3, 4, 5, 6, 8], m))
                off = float(r.choice([0, 0, 1.5]))
            if len(set(slots)) < m:
                slots = [float(j + 1) for j in range(m)]
            cap = r.random() < 0.5
            pre = r.choice([False, "resume", "restart", "resample"]) if cap else False
            servers.append({"k": "slot", "slots": slots, "sizes": [r.choice([0, 1, 2, 3]) for _ in range(m)],
                            "cap": cap, "pre": pre, "off": off})
        elif not P["restricted"] and F("inf"):
            servers.append({"k": "inf"})
        elif not P["restricted"] and F("zero"):
            servers.append({"k": "int", "c": 0})
        else:
            servers.append({"k": "int", "c": r.choice([1, 1, 2, 3])})
    # the same Schedule object may legitimately be given to several nodes of one network
    sch = [i for i, x in enumerate(servers) if x["k"] == "sched"]
    if len(sch) >= 2 and r.random() < 0.35:
        a, b = sorted(r.sample(sch, 2))
        servers[b] = dict(servers[a])
        servers[b]["same_as"] = a
    S["servers"] = servers
    S["ps"] = ps
    S["ps_thr"] = [r.choice([1, 1, 2, 3]) if ps[i] else 1 for i in range(n)]

    # capacities ---------------------------------------------------------------------
    if P["restricted"]:
        S["qcap"] = [r.choice([0, 0, 1, 2]) for _ in range(n)]
    elif F("qcap"):
        S["qcap"] = [r.choice(P["qcap_vals"]) for _ in range(n)]
    else:
        S["qcap"] = [INF] * n
    S["syscap"] = r.randint(1, 6) if F("syscap") else INF

    # tapes --------------------------------------------------------------------------
    arr = {c: [mk_tape(r, mode, zero=zero, P=P) if r.random() < 0.7 else None for _ in range(n)] for c in classes}
    if all(t is None for c in classes for t in arr[c]):
        arr[classes[0]][0] = mk_tape(r, mode, zero=zero, P=P)
    for c in classes:
        for t in arr[c]:
            if t is not None and F("f_infarr"):
                t["inf_after"] = r.randint(0, 6)
    S["arr"] = arr
    S["srv"] = {c: [mk_tape(r, mode, r.choice([0.5, 1, 2]), zero=zero, P=P) for _ in range(n)] for c in classes}
    S["batch"] = None
    if F("batch"):
        b0 = 0 if r.random() < P["f_batch0"] else 1
        S["batch"] = {c: [{"fam": "int", "kmin": b0, "kmax": r.choice([1, 2, 4]), "seed": r.getrandbits(48)}
                          for _ in range(n)] for c in classes}
    S["ren"] = None
    if F("renege"):
        S["ren"] = {c: [mk_tape(r, mode, 2, zero=zero) if r.random() < 0.6 else None for _ in range(n)] for c in classes}
        if all(t is None for c in classes for t in S["ren"][c]):
            S["ren"] = None

    # class changes -------------------------------------------------------------------
    S["ccm"] = None
    if k > 1 and F("ccm"):
        ccm = []
        for i in range(n):
            m = {}
            for c in classes:
                row = {d: 0.0 for d in classes}
                x = r.random()
                if x < 0.4:
                    row[c] = 1.0
                elif x < 0.8:
                    d = r.choice(classes)
                    row[d] += 0.5
                    row[c] += 0.5
                else:
                    d = r.choice(classes)
                    row[d] = 1.0
                m[c] = row
            ccm.append(m)
        S["ccm"] = ccm
        S["ccm_order"] = r.sample(classes, k)      # key order of the class-change dictionaries handed to create_network
    S["cct"] = None
    if k > 1 and F("cct"):
        cct = {}
        for c in classes:
            for d in classes:
                if c != d and r.random() < 0.4:
                    cct.setdefault(c, {})[d] = mk_tape(r, mode, 2, zero=zero)
        S["cct"] = cct or None
    classchange = S["ccm"] is not None or S["cct"] is not None

    # routing ------------------------------------------------------------------------
    def mk_probs():
        probs = [r.choice([0.0, 0.0, 0.25, 0.5]) for _ in range(n)]
        while sum(probs) > 1.0:
            probs[r.randrange(n)] = 0.0
        if P["restricted"] and r.random() < 0.5 and sum(probs) < 1.0:
            probs[r.randrange(n)] += 1.0 - sum(probs)
        return probs

    jsq_ok = [d for d in dests if not ps[d - 1]]

    def mk_router():
        kind = wchoice(r, P["node_routers"])
        if kind in ("jsq", "lb") and not jsq_ok:
            kind = "prob"
        if kind == "prob":
            return {"k": "prob", "dests": dests, "probs": mk_probs()}
        if kind == "leave":
            return {"k": "leave"}
        if kind == "direct":
            return {"k": "direct", "to": r.choice(dests)}
        if kind in ("jsq", "lb"):
            return {"k": kind, "dests": r.sample(jsq_ok, r.randint(1, len(jsq_ok))), "tb": r.choice(P.get("jsq_tb", ["random", "order"]))}
        return {"k": "cycle", "cycle": [r.choice(dests + [-1]) for _ in range(r.randint(1, 3))]}

    routing = {}
    kind0 = None
    for c in classes:
        kind = wchoice(r, P["route_kinds"])
        if classchange:
            # routing kinds homogeneous across classes whenever a class change is possible
            if kind0 is None:
                kind0 = kind
            elif kind0 in ("pb", "fpb"):
                kind = kind0
            elif kind in ("pb", "fpb"):
                kind = "matrix"
        if kind == "matrix":
            routing[c] = {"k": "matrix", "M": [mk_probs() for _ in range(n)]}
        elif kind == "net":
            rt = {"k": "net", "routers": [mk_router() for _ in range(n)], "jockey": None}
            if S["ren"] is not None and F("jockey"):
                rt["jockey"] = [r.choice(dests + [-1]) for _ in range(n)]
            routing[c] = rt
        elif kind == "pb":
            routing[c] = {"k": "pb", "routes": [[r.randint(1, n) for _ in range(r.randint(0, 3))] for _ in range(4)]}
        else:
            pool = jsq_ok or dests
            choice = r.choice(["random", "jsq", "lb"]) if jsq_ok else "random"
            if classchange and kind0 == "fpb" and routing:
                first = next(iter(routing.values()))
                rule, choice = first["rule"], first["choice"]
            else:
                rule = r.choice(["any", "all"])
            routing[c] = {"k": "fpb", "rule": rule, "choice": choice,
                          "routes": [[sorted(r.sample(pool, r.randint(1, len(pool)))) for _ in range(r.randint(0, 2))]
                                     for _ in range(4)]}
    S["routing"] = routing

    # baulking, disciplines, server priority -------------------------------------------
    S["baulk"] = None
    if F("baulk"):
        S["baulk"] = {c: [{"ps": [r.choice([0.0, 0.0, 0.5, 1.0]) for _ in range(r.randint(1, 4))]}
                          if r.random() < 0.6 else None for _ in range(n)] for c in classes}
    S["disc"] = [r.choice(P.get("disc_opts", ["FIFO", "LIFO", "SIRO"])) for _ in range(n)] if F("disc") else None
    S["spf"] = [r.choice([None, "hi", "lo"]) for _ in range(n)] if F("spf") else None

    # trackers / detectors ---------------------------------------------------------------
    S["tracker"] = None
    if F("tracker"):
        kind = r.choice(["SystemPopulation", "NodePopulation", "NodePopulationSubset", "GroupedNodePopulation",
                         "NodeClassMatrix", "NaiveBlocking", "MatrixBlocking"])
        t = {"k": kind}
        if kind == "NodePopulationSubset":
            t["obs"] = sorted(r.sample(range(n), r.randint(1, n)))
            if r.random() < 0.3:
                r.shuffle(t["obs"])
        if kind == "GroupedNodePopulation":
            idx = list(range(n))
            r.shuffle(idx)
            idx = idx[: r.randint(1, n)]
            cut = r.randint(0, len(idx))
            t["groups"] = [g for g in (idx[:cut], idx[cut:]) if g]
        if kind == "NodeClassMatrix" and r.random() < 0.3:
            t["order"] = r.sample(classes, k)
        S["tracker"] = t
    allint = all(s["k"] == "int" and s["c"] >= 1 for s in servers) and not any(ps)
    # deadlock detection is documented for restricted networks: integer servers, no reneging, no pre-emption
    det_ok = allint and S["ren"] is None and not S["preempt"] and S["cct"] is None
    S["detector"] = "StateDigraph" if (det_ok and F("detector")) else None

    # engine draws: tie-break policy and boundary injections -----------------------------
    S["draws"] = {"seed": r.getrandbits(48), "policy": r.choice(P["policies"]), "brate": P["f_boundary"] if r.random() < 0.5 else 0.0}

    # plan -----------------------------------------------------------------------------
    pk = wchoice(r, P["plan"])
    if pk == "deadlock" and not det_ok:
        pk = "time"
    if pk != "time":
        # a count / deadlock that can never be reached after all streams have ended is a caller error
        for c in classes:
            for t in arr[c]:
                if t is not None:
                    t.pop("inf_after", None)
    if pk == "time":
        T = r.choice(P["horizon"])
        if r.random() < 0.3:
            T = round(r.uniform(0.3, T), 3) if mode == "cont" else float(r.randint(1, max(1, int(T))))
        cuts = []
        for _ in range(r.randint(0, P["splits"])):
            if r.random() < 0.3 or mode != "cont":
                cuts.append(float(r.randint(0, max(1, int(T)))) / r.choice([1, 2]))
            else:
                cuts.append(round(r.uniform(0, T), 4))
        cuts = sorted(x for x in cuts if 0 < x < T)
        S["plan"] = []
        for x in cuts:
            S["plan"].append(["time", x])
            if r.random() < P.get("spawn", 0.0):
                S["plan"].append(["spawn"])
            if r.random() < P.get("peek", 0.3):
                S["plan"].append(["peek"])
            if r.random() < P.get("mixed", 0.25):
                # the caller switches method in between: a few more customers, then on to the next horizon
                S["plan"].append(["cust", r.randint(1, 6), r.choice(["Arrive", "Accept", "Finish"]), "more"])
                for c in classes:
                    for t in arr[c]:
                        if t is not None:
                            t.pop("inf_after", None)
        S["plan"].append(["time", T])
    elif pk == "cust":
        S["plan"] = [["cust", r.randint(1, 15), r.choice(["Complete", "Finish", "Arrive", "Accept"])]]
    else:
        S["detector"] = "StateDigraph"
        S["plan"] = [["deadlock"]]
    S["cap"] = P["stepcap"]
    if P.get("_meta"):
        S["_meta"] = True
    if P.get("_cont"):
        S["_cont"] = True
    if P.get("f_bad") and r.random() < P["f_bad"]:
        S["_f_bad"] = True
    if P.get("f_bigclock") and F("f_bigclock"):
        S["clock0"] = float(r.choice([1e6, 1e9, 1e12]))
    else:
        S["clock0"] = 0.0
    return S


def can_self_loop(S, j):
    """Conservative: can a customer leaving node j (1-based) be routed straight back to j?"""
    for c, rt in S["routing"].items():
        k = rt["k"]
        if k == "matrix":
            if rt["M"][j - 1][j - 1] > 0:
                return True
        elif k == "net":
            x = rt["routers"][j - 1]
            if (x["k"] == "prob" and x["probs"][j - 1] > 0) or (x["k"] == "direct" and x["to"] == j) or \
               (x["k"] in ("jsq", "lb") and j in x["dests"]) or (x["k"] == "cycle" and j in x["cycle"]):
                return True
        elif k == "pb":
            if any(j in route for route in rt["routes"]):
                return True
        elif k == "fpb":
            if any(j in s for route in rt["routes"] for s in route):
                return True
    return False


ALL_RULES = ("KF-A", "KF-B", "KF-C", "KF-D", "KF-E")


def normalise_shared(S):
    """A node whose schedule is the same object as another node's has, by construction, the same timetable."""
    srv = S["servers"]
    for b, x in enumerate(srv):
        a = x.get("same_as")
        if a is not None:
            if 0 <= a < b and srv[a]["k"] == "sched" and srv[a].get("same_as") is None:
                srv[b] = dict(srv[a], same_as=a)
            else:
                x.pop("same_as")
    return S


def reroute_sites(S):
    out = []
    for j, s in enumerate(S["servers"], 1):
        if s["k"] == "sched" and s["pre"] == "reroute":
            out.append(("s", j))
        if S.get("preempt") and S["preempt"][j - 1] == "reroute":
            out.append(("p", j))
    return out


def sanitize(S, rules=ALL_RULES):
    """Steer a spec away from the feature conjunctions of OPEN known findings (known_findings.json);
    each rule here corresponds to one open entry, whose pinned reproducer is replayed by every run.
    A property whose own clauses are not affected by a finding may switch that rule off (profiles.py)."""
    normalise_shared(S)
    # KF-C: a processor-sharing node whose customers can be blocked (or that customers are blocked into)
    if "KF-C" in rules and any(S["ps"]):
        S["qcap"] = [INF] * S["n"]
    # KF-D: exact arithmetic with schedule / slot dates that are not exactly representable in binary
    if "KF-D" in rules and S.get("exact"):
        for s in S["servers"]:
            if s["k"] in ("sched", "slot"):
                key = "ends" if s["k"] == "sched" else "slots"
                ds = sorted(set(max(0.25, round(d * 4) / 4) for d in s[key]))
                while len(ds) < len(s[key]):
                    ds.append(ds[-1] + 1.0)
                s[key] = ds
                s["off"] = round(s["off"] * 4) / 4
    # KF-E: jockeying (after reneging) into a node with finite capacity ignores that capacity
    for rt in (S["routing"].values() if "KF-E" in rules else ()):
        if rt["k"] == "net" and rt.get("jockey"):
            rt["jockey"] = [(-1 if (d != -1 and S["qcap"][d - 1] != INF) else d) for d in rt["jockey"]]
    blocking = any(q != INF for q in S["qcap"])
    for j, s in enumerate(S["servers"], 1):
        # KF-A: a pre-emptive shift end / capacitated pre-emptive slot interrupting a BLOCKED customer
        if "KF-A" in rules and blocking and s["k"] in ("sched", "slot") and s["pre"]:
            s["pre"] = False
        # KF-B: pre-emptive rerouting straight back into the node that is shedding its servers
        if "KF-B" in rules and s["k"] == "sched" and s["pre"] == "reroute" and can_self_loop(S, j):
            s["pre"] = "restart"
    if "KF-B" in rules and S.get("preempt"):
        for j in range(1, S["n"] + 1):
            if S["preempt"][j - 1] == "reroute" and can_self_loop(S, j):
                S["preempt"][j - 1] = "restart"
    if "KF-B" in rules:
        # a Schedule object shared by two nodes puts the option on both of them
        for x in S["servers"]:
            if x.get("same_as") is not None and S["servers"][x["same_as"]].get("pre") == "reroute":
                S["servers"][x["same_as"]]["pre"] = "restart"
        normalise_shared(S)
        # ... or back to it through a chain of pre-emptive reroutes within one event: keep at most one 'reroute' site
        for kind, j in reroute_sites(S)[1:]:
            if kind == "s":
                for x in S["servers"]:
                    if x is S["servers"][j - 1] or x.get("same_as") == j - 1:
                        x["pre"] = "restart"
                if S["servers"][j - 1].get("same_as") is not None:
                    S["servers"][S["servers"][j - 1]["same_as"]]["pre"] = "restart"
            else:
                S["preempt"][j - 1] = "restart"
    normalise_shared(S)
    return S


def features(S):
    """Feature set of a spec (recomputed, never stored) — used by profiles, probes and findings."""
    f = set()
    n = S["n"]
    if S["prio"] and len(set(S["prio"].values())) > 1:
        f.add("prio")
    if S["preempt"] and any(S["preempt"]):
        f.add("preempt")
        for o in S["preempt"]:
            if o:
                f.add("preempt:" + o)
    for s, p in zip(S["servers"], S["ps"]):
        if p:
            f.add("ps")
        elif s["k"] == "sched":
            f.add("sched")
            if s["pre"]:
                f.add("schedpre")
                f.add("schedpre:" + s["pre"])
            if 0 in s["cs"]:
                f.add("sched0")
        elif s["k"] == "slot":
            f.add("slot")
            if s["cap"]:
                f.add("slotcap")
            if s["pre"]:
                f.add("slotpre")
        elif s["k"] == "inf":
            f.add("inf")
        elif s["c"] == 0:
            f.add("zero")
    if any(q != INF for q in S["qcap"]):
        f.add("qcap")
        if "schedpre" in f or "slotpre" in f:
            f.add("srvpre+blocking")
    for j in range(1, n + 1):
        sj = S["servers"][j - 1]
        if ((sj["k"] == "sched" and sj["pre"] == "reroute") or (S["preempt"] and S["preempt"][j - 1] == "reroute")) and can_self_loop(S, j):
            f.add("reroute-to-self")
    if len(set(j for _, j in reroute_sites(S))) >= 2 or len(reroute_sites(S)) >= 2:
        f.add("reroute-to-self")      # a chain of pre-emptive reroutes can lead back to the node within one event
    if S["syscap"] != INF:
        f.add("syscap")
    for c, rt in S["routing"].items():
        f.add("rt:" + rt["k"])
        if rt["k"] == "net":
            for x in rt["routers"]:
                f.add("nr:" + x["k"])
            if rt.get("jockey"):
                f.add("jockey")
    if any(d == "LINGER" for d in (S.get("disc") or [])):
        f.add("disc:custom-lingering")
    for name in ("batch", "ren", "ccm", "cct", "baulk", "disc", "spf", "tracker", "detector", "exact"):
        if S.get(name):
            f.add(name)
    if S["tracker"]:
        f.add("tr:" + S["tracker"]["k"])
    for rt in S["routing"].values():
        if rt["k"] == "net" and rt.get("jockey") and any(d != -1 and S["qcap"][d - 1] != INF for d in rt["jockey"]):
            f.add("jockey-into-finite-node")
    if "ps" in f and "qcap" in f:
        f.add("ps+blocking")
    if S.get("exact"):
        for sj in S["servers"]:
            if sj["k"] in ("sched", "slot"):
                ds = list(sj["ends" if sj["k"] == "sched" else "slots"]) + [sj["off"]]
                if any(d * 4 != int(d * 4) for d in ds):
                    f.add("exact+nondyadic-schedule")
    if len(S["classes"]) > 1:
        f.add("multiclass")
    if n > 1:
        f.add("multinode")
    if len(S["plan"]) > 1:
        f.add("split")
    f.add("plan:" + S["plan"][-1][0])
    return f
