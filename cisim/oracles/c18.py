"""C18 deadlock detection is sound and complete; times to deadlock are exact."""
from ..core import Oracle


class C18(Oracle):
    prop = "C18"

    def __init__(self, R):
        Oracle.__init__(self, R)
        self.dead_step = None
        self.dead_t = None
        self.first = {}
        self.blockages_before = 0
        self.nblk = 0

    def start(self):
        self.first[self.R.sim.statetracker.hash_state()] = 0.0

    def micro(self, ev):
        if ev[2] == "blk":
            self.nblk += 1

    def deadlocked(self):
        R = self.R
        info = {}
        for nd in R.nodes():
            if R.kind(nd) != "int" or nd.c == 0:
                continue
            dests = []
            full = True
            for s in nd.servers:
                c = s.cust
                if not s.busy or c is False or not c.is_blocked:
                    full = False
                    break
                dests.append(c.destination)
            if full and dests:
                info[nd.id_number] = dests
        S = set(info)
        changed = True
        while changed:
            changed = False
            for n in list(S):
                if any(d not in S for d in info[n]):
                    S.discard(n)
                    changed = True
        return S

    def before(self, node):
        if self.R.op[0] == "deadlock" and self.dead_step is not None:
            self.fail("deadlock-missed", "a deadlock (nodes %r) existed after step %d at t=%r but the engine executed another event" % (
                sorted(self.dead_set), self.dead_step, self.dead_t))

    def after(self, node, nxt):
        R = self.R
        st = R.sim.statetracker.hash_state()
        if st not in self.first:
            self.first[st] = R.t
        S = self.deadlocked()
        if S and self.dead_step is None:
            self.dead_step, self.dead_t, self.dead_set = R.step, R.t, S
            self.blockages_before = self.nblk - sum(1 for ev in R.log.micro[R.micro_from:] if ev[2] == "blk")

    def segment_end(self, op):
        R = self.R
        if op[0] != "deadlock":
            return
        if self.dead_step != R.step:
            self.fail("false-deadlock", "simulate_until_deadlock returned after step %d at t=%r; genuine deadlock: %s" % (
                R.step, R.t, "none" if self.dead_step is None else "at step %d" % self.dead_step))
        ttd = R.sim.times_to_deadlock
        if set(ttd) != set(self.first):
            self.fail("times-to-deadlock-keys", "engine %r, visited states %r" % (sorted(map(repr, ttd)), sorted(map(repr, self.first))))
        for s, t0 in self.first.items():
            want = self.dead_t - t0
            if ttd[s] != want or not (ttd[s] >= 0):
                self.fail("time-to-deadlock-wrong", "state %r first visited at %r, deadlock at %r: engine says %r" % (s, t0, self.dead_t, ttd[s]))
        R.counts["C18:deadlocks_reached"] += 1

    def probe(self):
        return self.dead_step is not None and self.blockages_before >= 1
