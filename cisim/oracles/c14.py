"""C14 normal termination exactly at the horizon / count.  Engine crashes and hangs are
classified by core.run_spec (clause crash:<Type>@<function> / hang)."""
from ..core import Oracle

INF = float("inf")


class C14(Oracle):
    prop = "C14"

    def __init__(self, R):
        Oracle.__init__(self, R)
        self.last_count = None

    # independent counts for simulate_until_max_customers ---------------------------------
    def _count(self, method):
        sim = self.R.sim
        exl = sim.nodes[-1].all_individuals
        if method == "Finish":
            return len(exl)
        created = sum(len(self.R.inds(nd)) for nd in sim.transitive_nodes) + len(exl)
        if method == "Arrive":
            return created
        if method == "Accept":
            refused = 0
            for i in exl:
                recs = i.data_records
                if recs and recs[0].record_type in ("baulk", "rejection"):
                    refused += 1
            return created - refused
        done = 0
        for i in exl:
            recs = i.data_records
            if recs and recs[-1].record_type in ("service", "interrupted service"):
                done += 1
        return done

    def before(self, node):
        R = self.R
        op = R.op
        if op[0] == "time":
            if not (R.t < op[1]):
                self.fail("event-at-or-after-horizon", "event at %r executed, horizon %r" % (R.t, op[1]))
        elif op[0] == "cust":
            c = self._count(op[2])
            if c >= op[1]:
                self.fail("ran-past-count", "method %s count already %d >= %d before another event" % (op[2], c, op[1]))

    def segment_end(self, op):
        R = self.R
        sim = R.sim
        if op[0] == "time":
            T = op[1]
            for nd in sim.active_nodes:
                d = nd.next_event_date
                if isinstance(d, bool) or not (d >= T):
                    self.fail("stopped-before-horizon", "returned from simulate_until_max_time(%r) with %r due at %r" % (T, nd, d))
            for key, calls in R.log.samples.items():
                if key[0] == "arr" and calls and not R.S.get("exact"):
                    tot = calls[0][3]
                    for c in calls[1:]:
                        tot = tot + c[3]
                    if tot < T:
                        self.fail("due-arrival-not-executed", "stream %r has an arrival due at %r < horizon %r that was never executed" % (key[1:], tot, T))
            for nd in sim.transitive_nodes:
                for i in R.inds(nd):
                    e = i.service_end_date
                    if e is False or isinstance(e, (bool, str)) or i.is_blocked or i.interrupted:
                        continue
                    started = i.service_start_date is not False and not isinstance(i.service_start_date, str)
                    if started and e < T:
                        self.fail("due-service-end-not-executed", "ind %s at node %s is in service with end date %r < horizon %r" % (i.id_number, nd.id_number, e, T))
            if not (sim.current_time >= T):
                self.fail("clock-before-horizon", "%r < %r" % (sim.current_time, T))
            for nd in sim.nodes[1:]:
                for i in nd.all_individuals:
                    for rec in i.data_records:
                        if not (rec.exit_date < T):
                            self.fail("record-at-or-after-horizon", "%r with horizon %r" % (rec, T))
        elif op[0] == "cust":
            c = self._count(op[2])
            if c < op[1]:
                self.fail("stopped-before-count", "method %s count %d < %d at return" % (op[2], c, op[1]))

    def probe(self):
        R = self.R
        optional = R.feats - {"multiclass", "multinode", "rt:matrix", "plan:time", "plan:cust", "plan:deadlock"}
        return len(optional) >= 2 and R.nevents >= 10
