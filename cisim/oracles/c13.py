"""C13 reneging and baulking happen exactly when the model says."""
from decimal import Decimal

from ..core import Oracle

INF = float("inf")


class C13(Oracle):
    prop = "C13"

    def __init__(self, R):
        Oracle.__init__(self, R)
        self.exact = R.S.get("exact")
        self.baulks = []        # decisions of the current event: (ind id, node, u, p, n)
        self.nren = 0
        self.nbaulkdec = 0
        self.snap = {}
        self.hist = {}          # (node, ind) -> [patience of 1st visit, of 2nd visit, ...] (None: no patience drawn)
        self.pat_seq = {}       # (node, ind) -> sequence number of the last patience draw already attributed to a visit
        self.renpat = {}
        self.cust = {}
        R.hooks.baulk_cbs.append(self.on_baulk)

    def add(self, a, b):
        if self.exact:
            return Decimal(str(a)) + Decimal(str(b))
        return a + b

    def jockey_dest(self, cls, node):
        rt = self.R.S["routing"].get(cls)
        if rt is not None and rt["k"] == "net" and rt.get("jockey"):
            return rt["jockey"][node - 1]
        return -1

    def patience_drawn_since(self, nid, iid, seq0):
        """the patience drawn for this customer at this node after sequence number seq0 (accepts can nest: an arrival that
        pre-empts with 'reroute' completes another customer's accept elsewhere before its own is announced)"""
        out, at = None, seq0
        for key, calls in self.R.log.samples.items():
            if key[0] == "ren" and key[1] == nid:
                for c in reversed(calls):
                    if c[4] <= seq0:
                        break
                    if c[2] == iid:
                        out, at = c[3], c[4]
        self.pat_seq[(nid, iid)] = at
        return out

    def patience(self, nid, iid):
        h = self.hist.get((nid, iid))
        return h[-1] if h else None

    def on_baulk(self, ev):
        R = self.R
        nid, cls, n, p, iid = ev[3], ev[4], ev[5], ev[6], ev[7]
        nd = R.sim.transitive_nodes[nid - 1]
        true_n = len(R.inds(nd))
        if n != true_n:
            self.fail("baulking-function-given-wrong-population", "node %s holds %d customers, baulking function was called with n=%r" % (nid, true_n, n))
        d = R.log.draws[-1] if R.log.draws else None
        if d is None or d[2] != "decide_baulk" or d[1] != R.step:
            self.fail("baulk-decision-without-draw", "node %s ind %s" % (nid, iid))
        self.baulks.append((iid, nid, d[4], p, n))

    def before(self, node):
        R = self.R
        self.baulks = []
        self.snap = {}
        self.N0 = R.sim.nodes[0].number_of_individuals if R.ev_type == "arrival" else None
        self.cust = {}
        if R.ev_type == "renege":
            self.snap = {i.id_number: (bool(i.server), i.arrival_date) for i in R.inds(node)}
            self.cust = {i.id_number: i for i in R.inds(node)}
            # documented order of coinciding events at ONE node: slotted service, shift change, end of service, class change,
            # renege.  A service that ends at this very instant at this node frees its server first, so the customer whose
            # patience runs out now may still "have started by then"; a renege executed while such an end of service is
            # still pending took the server's place away from it (wave 8, C13-w8a).
            if any(i.server and i.service_start_date == R.t for i in R.inds(node)):
                R.counts["C13:renege_at_instant_of_a_service_start"] += 1      # reach probe: the tie exists and was ordered correctly
            for i in R.inds(node):
                if i.server and not i.is_blocked and getattr(i, "service_end_date", None) == R.t and getattr(node, "reneging", False):
                    self.fail("renege-before-coinciding-end-of-service", "node %s t=%r: renege event executed while ind %s still has its end of service due at the same instant" % (
                        node.id_number, R.t, i.id_number))
                    break

    def micro(self, ev):
        if ev[2] == "acc":
            nid, iid = ev[3], ev[4]
            self.hist.setdefault((nid, iid), []).append(self.patience_drawn_since(nid, iid, self.pat_seq.get((nid, iid), 0)))
            return
        if ev[2] != "ren":
            return
        R = self.R
        nid, dest, iid = ev[3], ev[4], ev[5]
        self.renpat[iid] = self.patience(nid, iid)
        self.nren += 1
        st = self.snap.get(iid)
        if st is None:
            self.fail("renege-of-absent-customer", "ind %s at node %s" % (iid, nid))
        if st[0]:
            self.fail("customer-in-service-reneged", "ind %s at node %s was holding a server" % (iid, nid))
        c = self.cust.get(iid)
        if c is not None and len(c.data_records) >= 2 and c.data_records[-1].record_type == "renege":
            r = c.data_records[-2]        # the record written before the renege record of this event
            if r.record_type == "interrupted service" and r.node == nid and r.arrival_date == st[1] and r.destination != r.destination:
                self.fail("reneged-after-service-had-started", "ind %s at node %s started service at %r (later pre-empted) and still reneged at %r" % (
                    iid, nid, r.service_start_date, R.t))

    def after(self, node, nxt):
        R = self.R
        t = R.t
        sim = R.sim
        where = None
        if self.baulks or R.ev_type == "renege" or (self.N0 is not None and R.S.get("baulk")):
            where = {}
            for nd in sim.nodes[1:]:
                for i in nd.all_individuals:
                    where[i.id_number] = (nd.id_number, i)
        if self.N0 is not None and R.S.get("baulk"):
            # every arrival that was not rejected must have been put to the baulking function of its node and class
            nid, cls = R.ev_info
            if R.S["baulk"][cls][nid - 1] is not None:
                asked = set(b[0] for b in self.baulks)
                for iid in range(self.N0 + 1, sim.nodes[0].number_of_individuals + 1):
                    loc, ind = where.get(iid, (None, None)) if where else (None, None)
                    if ind is None:
                        for nd in sim.nodes[1:]:
                            for i in nd.all_individuals:
                                if i.id_number == iid:
                                    ind = i
                    recs = ind.data_records if ind is not None else []
                    rejected = len(recs) == 1 and recs[0].record_type == "rejection"
                    if not rejected and iid not in asked:
                        self.fail("arrival-not-put-to-baulking-function", "ind %s arrived at node %s (class %s, baulking function configured) and was admitted without the function being evaluated" % (iid, nid, cls))
        for iid, nid, u, p, n in self.baulks:
            self.nbaulkdec += 1
            if 0 < p < 1:
                R.counts["C13:baulk_decisions_with_0<p<1"] += 1
            loc, ind = where[iid]
            recs = ind.data_records
            baulked = loc == -1 and len(recs) == 1 and recs[0].record_type == "baulk"
            if (u < p) != baulked:
                self.fail("baulk-decision-ne-probability", "ind %s at node %s: p=%r, draw u=%r, baulked=%s (location %s, records %r)" % (
                    iid, nid, p, u, baulked, loc, [r.record_type for r in recs]))
            if baulked:
                r = recs[0]
                if r.queue_size_at_arrival != n or r.node != nid or r.arrival_date != t or r.exit_date != t:
                    self.fail("baulk-record-fields", "%r (population seen %r)" % (r, n))
        if R.ev_type == "renege":
            for ev in R.log.micro[R.micro_from:]:
                if ev[2] != "ren":
                    continue
                nid, dest, iid = ev[3], ev[4], ev[5]
                loc, ind = where[iid]
                r = ind.data_records[-1] if ind.data_records else None
                if r is None or r.record_type != "renege" or r.node != nid or r.exit_date != t:
                    self.fail("renege-without-record", "ind %s at node %s t=%r: last record %r" % (iid, nid, t, r))
                want = self.jockey_dest(r.customer_class, nid)
                if dest != want or loc != want:
                    self.fail("renege-destination", "ind %s reneged at node %s towards %s and is at %s; jockeying destination is %s" % (iid, nid, dest, loc, want))
                pat = self.renpat.get(iid)
                if pat is None:
                    self.fail("renege-without-patience", "ind %s at node %s had no patience sample" % (iid, nid))
                if r.exit_date != self.add(r.arrival_date, pat):
                    self.fail("renege-not-at-arrival-plus-patience", "ind %s at node %s: arrival %r + patience %r != renege date %r" % (iid, nid, r.arrival_date, pat, r.exit_date))
        # nobody waits beyond its patience
        for nd in R.nodes():
            if not nd.reneging or nd.c == INF:
                continue
            nid = nd.id_number
            for i in R.inds(nd):
                if i.server or i.data_records and i.data_records[-1].record_type == "interrupted service" and i.data_records[-1].node == nid \
                        and i.data_records[-1].arrival_date == i.arrival_date:
                    continue
                pat = self.patience(nid, i.id_number)
                if pat is None:
                    continue
                if self.add(i.arrival_date, pat) < t:
                    self.fail("waited-beyond-patience", "ind %s at node %s arrived %r with patience %r, still waiting at %r" % (i.id_number, nid, i.arrival_date, pat, t))

    def segment_end(self, op):
        R = self.R
        S = R.S
        for nd in R.sim.nodes[1:]:
            for i in nd.all_individuals:
                seen = {}
                nvisit = {}
                fresh = True
                for r in i.data_records:
                    ty = r.record_type
                    if fresh:
                        nvisit[r.node] = nvisit.get(r.node, 0) + 1
                    first_of_visit = fresh
                    fresh = not (ty == "interrupted service" and r.destination != r.destination)
                    if ty == "baulk":
                        b = S.get("baulk")
                        if not b or b[r.customer_class][r.node - 1] is None:
                            self.fail("baulk-without-function", "%r" % (r,))
                    elif ty == "renege":
                        rn = S.get("ren")
                        if not rn or rn[r.customer_class][r.node - 1] is None:
                            # the class may have changed while waiting; the patience was drawn for the class at arrival
                            if not S.get("cct"):
                                self.fail("renege-without-distribution", "%r" % (r,))
                    elif ty in ("service", "interrupted service"):
                        if not first_of_visit:
                            continue      # only the first service start of a visit is bounded by the patience
                        kd = S["servers"][r.node - 1]["k"]
                        if kd == "inf" or S["ps"][r.node - 1]:
                            continue
                        h = self.hist.get((r.node, r.id_number), [])
                        k = nvisit[r.node] - 1
                        pat = h[k] if k < len(h) else None
                        if pat is not None and not (r.service_start_date <= self.add(r.arrival_date, pat)):
                            self.fail("served-after-patience-expired", "ind %s at node %s: arrival %r patience %r but service started %r" % (
                                r.id_number, r.node, r.arrival_date, pat, r.service_start_date))

    def probe(self):
        R = self.R
        R.counts["C13:reneges"] += self.nren
        R.counts["C13:baulk_decisions"] += self.nbaulkdec
        return self.nren >= 1 or R.counts.get("C13:baulk_decisions_with_0<p<1", 0) >= 1
