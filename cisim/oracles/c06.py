"""C06 finite capacity / admission; C07 Type I blocking."""
from ..core import Oracle

INF = float("inf")


def spec_capacity(R, nd):
    """(capacity, exact?) from the spec: servers + queue capacity.  For scheduled nodes only an
    upper bound (max timetable count + queue capacity) is claimed (DESIGN narrowing)."""
    i = nd.id_number - 1
    q = R.S["qcap"][i]
    s = R.S["servers"][i]
    if s["k"] == "inf":
        return INF, True
    if s["k"] == "int":
        return s["c"] + q, True
    if s["k"] == "slot":
        return q, True
    return max(s["cs"]) + q, False


class C06(Oracle):
    prop = "C06"

    def __init__(self, R):
        Oracle.__init__(self, R)
        self.pre = None
        self.rejections = 0
        self.tight_admissions = 0

    def before(self, node):
        R = self.R
        sim = R.sim
        if R.ev_type == "arrival":
            pops = {nd.id_number: len(R.inds(nd)) for nd in R.nodes()}
            self.pre = (sim.nodes[0].number_of_individuals, pops, R.ev_info)
        else:
            self.pre = None

    def after(self, node, nxt):
        R = self.R
        sim = R.sim
        tot = 0
        for nd in R.nodes():
            n = len(R.inds(nd))
            tot += n
            cap, _ = spec_capacity(R, nd)
            if n > cap:
                self.fail("node-over-capacity", "node %s holds %d > servers+queue capacity %s at t=%r (%s)" % (nd.id_number, n, cap, R.t, R.ev_type))
        if tot > R.S["syscap"]:
            self.fail("system-over-capacity", "%d customers in the system, capacity %s" % (tot, R.S["syscap"]))
        if self.pre is None:
            return
        N0, pops, (nid, cls) = self.pre
        N1 = sim.nodes[0].number_of_individuals
        if N1 == N0:
            return
        target = sim.transitive_nodes[nid - 1]
        cap, exact = spec_capacity(R, target)
        syscap = R.S["syscap"]
        pop = pops[nid]
        syspop = sum(pops.values())
        at_exit = {}
        for i in sim.nodes[-1].all_individuals[::-1]:
            if i.id_number <= N0:
                continue
            at_exit[i.id_number] = i
        in_node = {i.id_number: i for i in R.inds(target) if i.id_number > N0}
        for iid in range(N0 + 1, N1 + 1):
            full = pop >= cap or syspop >= syscap
            if iid in at_exit:
                recs = at_exit[iid].data_records
                if len(recs) != 1 or recs[0].record_type not in ("rejection", "baulk"):
                    self.fail("refused-arrival-records", "new ind %s at the exit with records %r" % (iid, [r.record_type for r in recs]))
                r = recs[0]
                if r.record_type == "rejection":
                    self.rejections += 1
                    if exact and not full:
                        self.fail("rejected-although-space", "ind %s rejected at node %s holding %d of %s (system %d of %s)" % (iid, nid, pop, cap, syspop, syscap))
                    if r.queue_size_at_arrival != pop:
                        self.fail("rejection-record-population", "ind %s: record shows %r, node held %d" % (iid, r.queue_size_at_arrival, pop))
                    if r.node != nid or r.arrival_date != R.t or r.exit_date != R.t:
                        self.fail("rejection-record-fields", "%r" % (r,))
                else:
                    if full and exact:
                        self.fail("baulked-instead-of-rejected", "ind %s baulked at a full node %s" % (iid, nid))
            elif iid in in_node:
                if full and (exact or syspop >= syscap):
                    self.fail("admitted-although-full", "ind %s admitted to node %s holding %d of %s (system %d of %s)" % (iid, nid, pop, cap, syspop, syscap))
                if in_node[iid].data_records:
                    self.fail("admitted-with-record", "ind %s admitted but already has records" % iid)
                if exact and pop == cap - 1:
                    self.tight_admissions += 1
                pop += 1
                syspop += 1
            else:
                self.fail("new-arrival-misplaced", "new ind %s is neither in node %s nor at the exit" % (iid, nid))

    def probe(self):
        self.R.counts["C06:rejections"] += self.rejections
        return self.rejections >= 1 and self.tight_admissions >= 1


class C07(Oracle):
    prop = "C07"

    def __init__(self, R):
        Oracle.__init__(self, R)
        self.fifo = {}         # destination -> list of (node, ind) in the order they became blocked
        self.blk_t = {}        # (node, ind) -> clock at blocking
        self.pending = []      # (node, ind, expected time blocked)
        self.pops = None
        self.nblk = 0
        self.nunblk = 0
        self.cascade = 0
        self._depth = 0

    def cap(self, nd):
        c, exact = spec_capacity(self.R, nd)
        if not exact:
            c = nd.node_capacity      # scheduled node: the engine's own notion (narrowing, see DESIGN)
        return c

    def before(self, node):
        R = self.R
        self.pops = {nd.id_number: len(R.inds(nd)) for nd in R.nodes()}
        self._depth = 0

    def micro(self, ev):
        k = ev[2]
        R = self.R
        if k == "blk":
            nid, d, iid = ev[3], ev[4], ev[5]
            if (nid, iid) in self.blk_t:
                self.fail("blocked-customer-finished-again", "ind %s at node %s blocked a second time without moving" % (iid, nid))
            dest = R.sim.nodes[d]
            if len(R.inds(dest)) < self.cap(dest):
                self.fail("blocked-although-space", "ind %s blocked towards node %s holding %d of %s" % (iid, d, len(R.inds(dest)), self.cap(dest)))
            self.fifo.setdefault(d, []).append((nid, iid))
            self.blk_t[(nid, iid)] = R.t
            self.nblk += 1
        elif k == "rel":
            nid, d, iid, blocked = ev[3], ev[4], ev[5], ev[6]
            key = (nid, iid)
            if blocked:
                q = self.fifo.get(d, [])
                if key not in self.blk_t:
                    self.fail("released-as-blocked-but-never-blocked", "ind %s from node %s" % (iid, nid))
                if not q or q[0] != key:
                    self.fail("unblocked-out-of-order", "ind %s from node %s entered node %s, longest-blocked is %r" % (iid, nid, d, q[0] if q else None))
                q.pop(0)
                self.pending.append((nid, iid, R.t - self.blk_t.pop(key)))
                self.nunblk += 1
                self._depth += 1
                self.cascade = max(self.cascade, self._depth)
            else:
                if key in self.blk_t:
                    self.fail("blocked-customer-released-as-unblocked", "ind %s from node %s" % (iid, nid))
                c = R.log.last_cust
                recs = c.data_records if (c is not None and c is not False and getattr(c, "id_number", None) == iid) else []
                if recs and recs[-1].record_type == "interrupted service" and recs[-1].exit_date == R.t and recs[-1].destination == d:
                    # a pre-emptive reroute, not a service completion: documented to ignore queue capacities
                    R.counts["C07:reroutes_seen"] += 1
                    return
                if d != -1:
                    dest = R.sim.nodes[d]
                    # the customer has already been taken out of its own node: a self-loop saw itself
                    held = len(R.inds(dest)) + (1 if d == nid else 0)
                    if held >= self.cap(dest):
                        self.fail("moved-on-although-full", "ind %s moved from node %s to node %s holding %d of %s" % (iid, nid, d, held, self.cap(dest)))
                self.pending.append((nid, iid, 0))

    def after(self, node, nxt):
        R = self.R
        sim = R.sim
        t = R.t
        # records of the customers that moved in this event
        if self.pending:
            where = {}
            for nd in sim.nodes[1:]:
                for i in nd.all_individuals:
                    where[i.id_number] = i
            for nid, iid, tb in self.pending:
                ind = where.get(iid)
                rec = None
                if ind is not None:
                    for r in reversed(ind.data_records):
                        if r.node == nid and r.record_type == "service":
                            rec = r
                            break
                if rec is None or rec.exit_date != t:
                    self.fail("no-service-record-for-move", "ind %s left node %s at %r without a service record" % (iid, nid, t))
                if rec.time_blocked != tb:
                    self.fail("time-blocked-wrong", "ind %s at node %s: record says %r, was blocked for %r" % (iid, nid, rec.time_blocked, tb))
            self.pending = []
        flagged = 0
        for nd in R.nodes():
            nid = nd.id_number
            bq = nd.blocked_queue
            if len(bq) != nd.len_blocked_queue:
                self.fail("blocked-queue-length", "node %s: %d entries, counter %s" % (nid, len(bq), nd.len_blocked_queue))
            mine = self.fifo.get(nid, [])
            if [tuple(x) for x in bq] != mine:
                self.fail("blocked-queue-order", "node %s blocked queue %r, order of blocking was %r" % (nid, bq, mine))
            if bq and len(R.inds(nd)) < self.cap(nd):
                self.fail("left-blocked-although-space", "node %s holds %d of %s but %d customer(s) are blocked towards it" % (nid, len(R.inds(nd)), self.cap(nd), len(bq)))
            for i in R.inds(nd):
                key = (nid, i.id_number)
                if i.is_blocked:
                    flagged += 1
                    if key not in self.blk_t:
                        self.fail("flagged-but-never-blocked", "ind %s at node %s" % (i.id_number, nid))
                    d = i.destination
                    if d is False or key not in self.fifo.get(d, []):
                        self.fail("blocked-not-in-destination-queue", "ind %s at node %s towards %r" % (i.id_number, nid, d))
                    if R.kind(nd) in ("int", "sched") and not i.server:
                        self.fail("blocked-without-server", "ind %s at node %s" % (i.id_number, nid))
                elif key in self.blk_t:
                    self.fail("blocked-but-not-flagged", "ind %s at node %s" % (i.id_number, nid))
                else:
                    e = i.service_end_date
                    if i.server and e is not False and not isinstance(e, str) and e < t and not i.interrupted:
                        self.fail("finished-but-neither-moved-nor-blocked", "ind %s at node %s finished at %r, clock %r" % (i.id_number, nid, e, t))
        if flagged != len(self.blk_t):
            self.fail("blocked-count", "%d flagged customers, %d blocked by the shadow" % (flagged, len(self.blk_t)))

    def probe(self):
        R = self.R
        R.counts["C07:blockings"] += self.nblk
        R.counts["C07:unblockings"] += self.nunblk
        R.counts["C07:cascade>=2"] += 1 if self.cascade >= 2 else 0
        R.counts["C07:cascade>=3"] += 1 if self.cascade >= 3 else 0
        return self.nblk >= 1 and self.nunblk >= 1
