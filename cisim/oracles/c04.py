"""C04 server exclusivity and utilisation; C05 work conservation."""
from ..core import Oracle

INF = float("inf")


def finite_server_node(R, nd):
    return R.kind(nd) in ("int", "sched")


class C04(Oracle):
    prop = "C04"

    def __init__(self, R):
        Oracle.__init__(self, R)
        self.occ = {}          # (node, server id) -> ind id  (shadow occupancy from att/det)
        self.att_t = {}        # (node, server id) -> clock of attach
        self.busy = {}         # node -> attached time accumulated from att/det pairs
        self.first_seen = {}   # (node, server id) -> clock first seen
        self.gone = {}         # (node, server id) -> clock at which it disappeared
        self.dets = []         # detach events of the current B-event
        self.reused = False
        self.blocked_with_server = False
        self.served = {}       # (node, server id) -> set of customers

    def start(self):
        R = self.R
        for nd in R.nodes():
            if finite_server_node(R, nd):
                for s in nd.servers:
                    self.first_seen[(nd.id_number, s.id_number)] = 0.0

    def before(self, node):
        self.dets = []

    def micro(self, ev):
        k = ev[2]
        if k == "att":
            nid, sid, iid = ev[3], ev[4], ev[5]
            key = (nid, sid)
            if self.occ.get(key) is not None:
                self.fail("attach-to-busy-server", "server %s of node %s given to ind %s while serving ind %s" % (sid, nid, iid, self.occ[key]))
            self.occ[key] = iid
            self.att_t[key] = float(self.R.t)
            cs = self.served.setdefault(key, set())
            cs.add(iid)
            if len(cs) >= 2:
                self.reused = True
        elif k == "det":
            nid, sid, iid = ev[3], ev[4], ev[5]
            key = (nid, sid)
            if self.occ.get(key) != iid:
                self.fail("detach-mismatch", "server %s of node %s detached from ind %s, shadow has %r" % (sid, nid, iid, self.occ.get(key)))
            self.occ[key] = None
            self.busy[nid] = self.busy.get(nid, 0.0) + (float(self.R.t) - self.att_t[key])
            self.dets.append((nid, sid, iid))

    def after(self, node, nxt):
        R = self.R
        t = R.t
        ft = float(t)
        for nd in R.nodes():
            if not finite_server_node(R, nd):
                continue
            nid = nd.id_number
            inds = R.inds(nd)
            here = set(id(i) for i in inds)
            seen_srv = {}
            onduty = 0
            ids_now = set()
            for s in nd.servers:
                ids_now.add(s.id_number)
                key = (nid, s.id_number)
                if key not in self.first_seen:
                    self.first_seen[key] = ft
                if not s.offduty:
                    onduty += 1
                c = s.cust
                if s.busy:
                    if c is False or c is None or getattr(c, "server", None) is not s:
                        self.fail("busy-server-without-its-customer", "node %s server %s busy, cust %r" % (nid, s.id_number, c))
                    if id(c) not in here:
                        self.fail("server-serves-customer-elsewhere", "node %s server %s serves ind %s which is not in the node" % (nid, s.id_number, c.id_number))
                    if self.occ.get(key) != c.id_number:
                        self.fail("occupancy-not-announced", "node %s server %s holds ind %s, attach/detach events say %r" % (nid, s.id_number, c.id_number, self.occ.get(key)))
                elif c is not False:
                    self.fail("idle-server-with-customer", "node %s server %s idle but cust %r" % (nid, s.id_number, c))
            for key in list(self.first_seen):
                if key[0] == nid and key[1] not in ids_now and key not in self.gone:
                    self.gone[key] = ft
            if onduty != nd.c:
                self.fail("on-duty-count", "node %s has %d on-duty servers, c = %s" % (nid, onduty, nd.c))
            in_service_onduty = 0
            for i in inds:
                s = i.server
                if s:
                    if i.interrupted:
                        continue
                    if id(s) in seen_srv:
                        self.fail("server-shared", "node %s server %s serves ind %s and %s" % (nid, s.id_number, seen_srv[id(s)], i.id_number))
                    seen_srv[id(s)] = i.id_number
                    if not any(s is x for x in nd.servers):
                        self.fail("customer-on-killed-server", "ind %s at node %s holds server %s which is no longer at the node" % (i.id_number, nid, getattr(s, "id_number", s)))
                    if s.cust is not i:
                        self.fail("customer-server-link", "ind %s says server %s, server says %r" % (i.id_number, s.id_number, s.cust))
                    if not s.offduty:
                        in_service_onduty += 1
                    if i.is_blocked:
                        self.blocked_with_server = True
                elif i.is_blocked:
                    self.fail("blocked-without-server", "ind %s blocked at node %s holds no server" % (i.id_number, nid))
            if in_service_onduty > nd.c:
                self.fail("more-than-c-in-service", "node %s: %d in service on on-duty servers, c=%s" % (nid, in_service_onduty, nd.c))
        # a server stays with its customer until the customer leaves the node or is interrupted
        if self.dets:
            left = set()
            for ev in R.log.micro[R.micro_from:]:
                if ev[2] == "rel":
                    left.add((ev[3], ev[5]))
            for nid, sid, iid in self.dets:
                if (nid, iid) in left:
                    continue
                ind = self._find(nid, iid)
                ok = False
                if ind is not None:
                    recs = ind.data_records
                    if recs and recs[-1].record_type == "interrupted service" and recs[-1].exit_date == t and recs[-1].node == nid:
                        ok = True
                if not ok:
                    self.fail("server-left-its-customer", "server %s of node %s detached from ind %s which neither left nor was interrupted" % (sid, nid, iid))

    def _find(self, nid, iid):
        for nd in self.R.sim.nodes[1:]:
            for i in nd.all_individuals:
                if i.id_number == iid:
                    return i
        return None

    def segment_end(self, op):
        R = self.R
        sim = R.sim
        # per-server intervals from the records never overlap
        per = {}
        for nd in sim.nodes[1:]:
            for i in nd.all_individuals:
                for r in i.data_records:
                    if r.record_type in ("service", "interrupted service") and r.server_id is not False and r.server_id == r.server_id:
                        kd = R.S["servers"][r.node - 1]["k"]
                        if kd in ("int", "sched") and not R.S["ps"][r.node - 1]:
                            per.setdefault((r.node, r.server_id), []).append((r.service_start_date, r.exit_date, r.id_number))
        for key, iv in per.items():
            iv.sort(key=lambda x: (x[0], x[1]))
            for a, b in zip(iv, iv[1:]):
                if b[0] < a[1]:
                    self.fail("server-intervals-overlap", "node %s server %s: ind %s [%r,%r] overlaps ind %s [%r,%r]" % (key[0], key[1], a[2], a[0], a[1], b[2], b[0], b[1]))
        # utilisation: only for unsplit runs without any pre-emption
        f = R.feats
        if op[0] != "cap" and R.seg == len(R.S["plan"]) and "preempt" not in f and "schedpre" not in f and "slotpre" not in f:
            if op[0] == "time":
                tend = float(op[1])
            else:
                tend = float(R.t)
            for nd in R.nodes():
                if not finite_server_node(R, nd):
                    continue
                nid = nd.id_number
                u = getattr(nd, "server_utilisation", "missing")
                busy = self.busy.get(nid, 0.0)
                total = 0.0
                for key, t0 in self.first_seen.items():
                    if key[0] != nid:
                        continue
                    t1 = self.gone.get(key, tend)
                    total += max(t1, t0) - t0
                    if self.occ.get(key) is not None:
                        busy += tend - self.att_t[key]
                if nd.c == 0 and R.kind(nd) == "int":
                    continue
                if total <= 0:
                    continue
                if u is None or u == "missing":
                    if R.kind(nd) == "sched" and nd.c == 0:
                        continue   # engine reports None when the run ends in a zero-server shift (documented for c == 0)
                    self.fail("utilisation-missing", "node %s utilisation %r, expected %r" % (nid, u, busy / total))
                exp = busy / total
                u = float(u)
                tol = 1e-9 if not R.S.get("exact") else max(1e-9, 10.0 ** -(R.S["exact"] - 4))
                if not (-1e-12 <= u <= 1 + 1e-12):
                    self.fail("utilisation-out-of-range", "node %s utilisation %r" % (nid, u))
                if abs(u - exp) > tol * max(1.0, abs(exp)):
                    self.fail("utilisation-wrong", "node %s reports %r, attached time / server time = %r / %r = %r" % (nid, u, busy, total, exp))
                R.counts["C04:utilisation_checked"] += 1

    def probe(self):
        return self.reused and self.blocked_with_server


class C05(Oracle):
    prop = "C05"

    def __init__(self, R):
        Oracle.__init__(self, R)
        self.waited = set()
        self.waited_then_started = False

    def after(self, node, nxt):
        R = self.R
        for nd in R.nodes():
            if not finite_server_node(R, nd):
                continue
            free = 0
            for s in nd.servers:
                if not s.busy and not s.offduty:
                    free += 1
            waiting = 0
            for i in R.inds(nd):
                if not i.server:
                    waiting += 1
                    self.waited.add((nd.id_number, i.id_number, i.arrival_date))
                elif i.interrupted:
                    waiting += 1
                elif (nd.id_number, i.id_number, i.arrival_date) in self.waited:
                    self.waited_then_started = True
            # a service that started (or restarted) in this event started NOW: the recorded start is the instant the server became free
            started = set(ev[5] for ev in R.log.micro[R.micro_from:] if ev[2] == "att" and ev[3] == nd.id_number)
            for i in R.inds(nd):
                if i.id_number in started and i.server and not i.is_blocked and not i.interrupted:
                    st = i.service_start_date
                    if st is not False and not isinstance(st, str) and st != R.t:
                        self.fail("service-start-date-ne-instant-of-start", "ind %s took server %s of node %s at %r, its service start date says %r" % (
                            i.id_number, getattr(i.server, "id_number", None), nd.id_number, R.t, st))
            if free and (waiting or nd.interrupted_individuals):
                self.fail("idle-server-while-customer-waits", "node %s at t=%r: %d idle on-duty server(s), %d waiting/interrupted customer(s)" % (nd.id_number, R.t, free, max(waiting, len(nd.interrupted_individuals))))

    def probe(self):
        return self.waited_then_started
