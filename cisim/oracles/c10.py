"""C10 sampled inputs honoured — tape audit (exactly once, in order, right stream) and F5 invalid samples."""
from decimal import Decimal

from ..core import Oracle


class C10(Oracle):
    prop = "C10"

    def __init__(self, R):
        Oracle.__init__(self, R)
        self.arr_events = {}     # (node, class) -> list of clocks of arrival events on that stream
        self.Nbefore = 0
        self.completed = 0
        self.exact = R.S.get("exact")

    def add(self, a, b):
        if self.exact:
            return Decimal(str(a)) + Decimal(str(b))
        return a + b

    def calls(self, kind, node, cls):
        return self.R.log.samples.get((kind, node, cls), [])

    def before(self, node):
        R = self.R
        if R.ev_type == "arrival":
            self.Nbefore = R.sim.nodes[0].number_of_individuals
            self.bat_before = len(self.calls("bat", *R.ev_info))
            self.arr_before = len(self.calls("arr", *R.ev_info))

    def after(self, node, nxt):
        R = self.R
        if R.ev_type != "arrival":
            return
        nid, cls = R.ev_info
        key = (nid, cls)
        evs = self.arr_events.setdefault(key, [])
        evs.append(R.t)
        # the event happens exactly at the running sum of the stream's samples
        ac = self.calls("arr", nid, cls)
        k = len(evs)
        if len(ac) != k + 1 or self.arr_before != k:
            self.fail("inter-arrival-draw-count", "stream %r: %d arrival events, %d inter-arrival samples drawn" % (key, k, len(ac)))
        s = ac[0][3]
        if self.exact:
            s = Decimal(str(s))
        for c in ac[1:k]:
            s = self.add(s, c[3])
        if s != R.t:
            self.fail("arrival-not-at-partial-sum", "stream %r event %d at %r, partial sum of samples %r" % (key, k, R.t, s))
        if ac[0][1] != 0.0 or ac[k][1] != R.t:
            self.fail("sample-called-with-wrong-time", "stream %r draw %d got t=%r at clock %r" % (key, k, ac[k][1], R.t))
        # batch size
        made = R.sim.nodes[0].number_of_individuals - self.Nbefore
        if R.S.get("batch"):
            bc = self.calls("bat", nid, cls)
            if len(bc) != self.bat_before + 1:
                self.fail("batch-draw-count", "stream %r: %d batch samples drawn in one arrival event" % (key, len(bc) - self.bat_before))
            want = bc[-1][3]
            if bc[-1][1] != R.t:
                self.fail("sample-called-with-wrong-time", "batch draw got t=%r at clock %r" % (bc[-1][1], R.t))
        else:
            want = 1
        if made != want:
            self.fail("batch-size-not-honoured", "stream %r created %d customers, batch sample %r" % (key, made, want))
        if want == 0:
            R.counts["F4:empty_batches"] += 1

    def segment_end(self, op):
        self.check_streams()
        R = self.R
        if op[0] == "time":
            # every stream's next arrival (the running sum of ALL samples drawn so far) lies at or beyond the horizon
            for key, calls in R.log.samples.items():
                if key[0] != "arr" or not calls:
                    continue
                s = calls[0][3]
                if self.exact:
                    s = Decimal(str(s))
                for c in calls[1:]:
                    s = self.add(s, c[3])
                if len(calls) != len(self.arr_events.get((key[1], key[2]), [])) + 1:
                    self.fail("inter-arrival-draw-count", "stream %r: %d samples drawn for %d arrival events" % (key[1:], len(calls), len(self.arr_events.get((key[1], key[2]), []))))
                if s < op[1]:
                    self.fail("due-arrival-never-happened", "stream %r: next arrival due at %r (sum of its samples) but the run reached %r without it" % (key[1:], s, op[1]))
        f = R.feats
        if "preempt" in f or "schedpre" in f or "slotpre" in f:
            return
        sim = R.sim
        # index service draws by (node, ind, t)
        draws = {}
        for key, calls in R.log.samples.items():
            if key[0] == "srv":
                for c in calls:
                    draws.setdefault((key[1], c[2], c[1]), []).append((c[4], c[3], key[2]))
        for d in draws.values():
            d.sort()
        used = {}
        for nd in sim.nodes[1:]:
            for i in nd.all_individuals:
                for r in i.data_records:
                    if r.record_type != "service" or R.S["ps"][r.node - 1]:
                        continue
                    k3 = (r.node, r.id_number, r.service_start_date)
                    d = draws.get(k3)
                    j = used.get(k3, 0)
                    if d is None or j >= len(d):
                        self.fail("service-without-sample", "no service-time sample drawn for ind %s at node %s at start %r" % (r.id_number, r.node, r.service_start_date))
                    used[k3] = j + 1
                    _, val, cls = d[j]
                    if cls != r.customer_class:
                        self.fail("service-sample-from-wrong-stream", "ind %s class %s at node %s served with a sample of class %s" % (r.id_number, r.customer_class, r.node, cls))
                    if r.service_end_date != self.add(r.service_start_date, val):
                        self.fail("service-duration-ne-sample", "ind %s node %s: start %r + sample %r != end %r" % (r.id_number, r.node, r.service_start_date, val, r.service_end_date))
                    self.completed += 1
        # customers in service now
        for nd in sim.transitive_nodes:
            if R.S["ps"][nd.id_number - 1]:
                continue
            for i in R.inds(nd):
                st = i.service_start_date
                if st is False or isinstance(st, str):
                    continue
                k3 = (nd.id_number, i.id_number, st)
                d = draws.get(k3)
                j = used.get(k3, 0)
                if d is None or j >= len(d):
                    self.fail("service-without-sample", "ind %s in service at node %s since %r without a sample" % (i.id_number, nd.id_number, st))
                used[k3] = j + 1
                if i.service_end_date != self.add(st, d[j][1]):
                    self.fail("service-duration-ne-sample", "ind %s in service at node %s: start %r + sample %r != end %r" % (i.id_number, nd.id_number, st, d[j][1], i.service_end_date))
        for k3, d in draws.items():
            if R.S["ps"][k3[0] - 1]:
                continue
            if used.get(k3, 0) != len(d):
                self.fail("service-sample-unused", "node %s ind %s t=%r: %d samples drawn, %d services accounted for" % (k3[0], k3[1], k3[2], len(d), used.get(k3, 0)))

    def probe(self):
        R = self.R
        most = max([len(v) for v in self.arr_events.values()] or [0])
        return most >= 3 and self.completed >= 1
