"""C02 causal monotone time — clock, scheduled dates, record arithmetic."""
from math import isnan

from ..core import Oracle

INF = float("inf")


def isnum(x):
    return (not isinstance(x, bool)) and hasattr(x, "__float__")


def _nan(x):
    try:
        return x != x
    except Exception:
        return False


class C02(Oracle):
    prop = "C02"

    def __init__(self, R):
        Oracle.__init__(self, R)
        self.last_t = None
        self.checked = {}      # ind id -> number of records already checked
        self.exit_seen = 0
        self.types = set()
        self.ties = 0

    def before(self, node):
        R = self.R
        t = R.sim.current_time
        d = node.next_event_date
        if not isnum(d) or not (d == t):
            self.fail("event-not-at-its-date", "clock %r, event date %r (%s)" % (t, d, R.ev_type))
        if self.last_t is not None:
            if not (t >= self.last_t):
                self.fail("clock-went-back", "%r -> %r (%s at node %s)" % (self.last_t, t, R.ev_type, R.ev_nid))
            if t == self.last_t:
                self.ties += 1
        self.last_t = t

    def after(self, node, nxt):
        R = self.R
        sim = R.sim
        t = R.t
        an = sim.nodes[0]
        for nid, row in an.event_dates_dict.items():
            for c, d in row.items():
                if not isnum(d) or not (d >= t):
                    self.fail("arrival-scheduled-in-past", "stream (%s,%s) next date %r < clock %r" % (nid, c, d, t))
        for nd in sim.transitive_nodes:
            d = nd.next_event_date
            if not isnum(d) or not (d >= t):
                self.fail("event-scheduled-in-past", "node %s next %s date %r, clock %r" % (nd.id_number, nd.next_event_type, d, t))
            finite = nd.c != INF      # the engine never reneges / changes class at infinite-server nodes
            ren = nd.reneging and finite
            dyn = nd.dynamic_classes and finite
            for i in R.inds(nd):
                if not i.server:
                    if ren:
                        rd = getattr(i, "reneging_date", INF)
                        if not isnum(rd) or not (rd >= t):
                            self.fail("renege-date-in-past", "ind %s waiting at node %s, reneging date %r < clock %r" % (i.id_number, nd.id_number, rd, t))
                    if dyn:
                        cd = getattr(i, "class_change_date", INF)
                        if not isnum(cd) or not (cd >= t):
                            self.fail("class-change-date-in-past", "ind %s at node %s date %r < clock %r" % (i.id_number, nd.id_number, cd, t))
                self._records(i, t)
        exl = sim.nodes[-1].all_individuals
        for j in range(self.exit_seen, len(exl)):
            self._records(exl[j], t)
        self.exit_seen = len(exl)

    def _records(self, ind, t):
        recs = ind.data_records
        k = self.checked.get(ind.id_number, 0)
        if len(recs) <= k:
            return
        for rec in recs[k:]:
            self._check(rec, t)
        self.checked[ind.id_number] = len(recs)

    def _check(self, r, t):
        ty = r.record_type
        self.types.add(ty)
        F = self.fail
        a, e = r.arrival_date, r.exit_date
        if not isnum(a) or not isnum(e) or _nan(a) or _nan(e):
            F("record-bad-date", "%r" % (r,))
        if not (e <= t):
            F("record-after-clock", "exit_date %r > clock %r in %r" % (e, t, r))
        if not (a >= 0):
            F("record-negative-date", "%r" % (r,))
        if ty == "service":
            s, x = r.service_start_date, r.service_end_date
            if not (isnum(s) and isnum(x)) or not (a <= s <= x <= e):
                F("service-order", "arrival<=start<=end<=exit fails in %r" % (r,))
            if not (r.waiting_time == s - a and r.waiting_time >= 0):
                F("service-waiting-time", "%r" % (r,))
            if not (r.service_time == x - s and r.service_time >= 0):
                F("service-service-time", "%r" % (r,))
            if not (r.time_blocked == e - x and r.time_blocked >= 0):
                F("service-time-blocked", "%r" % (r,))
        elif ty == "interrupted service":
            s = r.service_start_date
            if not isnum(s) or not (a <= s <= e):
                F("interrupted-order", "arrival<=start<=exit fails in %r" % (r,))
            if not (r.waiting_time == s - a and r.waiting_time >= 0):
                F("interrupted-waiting-time", "%r" % (r,))
            st = r.service_time
            if not isnum(st) or not (st >= 0):
                F("interrupted-service-time", "intended service time %r in %r" % (st, r))
        elif ty == "renege":
            if not (a <= e):
                F("renege-order", "%r" % (r,))
            if not (r.waiting_time == e - a and r.waiting_time >= 0):
                F("renege-waiting-time", "%r" % (r,))
        elif ty in ("baulk", "rejection"):
            if not (a == e):
                F("baulk-reject-order", "%r" % (r,))
        else:
            F("unknown-record-type", "%r" % (r,))

    def probe(self):
        self.R.counts["C02:ties"] = self.ties
        return self.ties >= 1 and len(self.types) >= 2
