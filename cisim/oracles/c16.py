"""C16 pause/resume transparency — differential: one call vs several successive calls."""
import copy

from ..core import Oracle, OutOfDomain, run_spec, records_of

INF = float("inf")


class C16(Oracle):
    """Collector: detects ties (out of domain) and counts pauses that fall inside busy periods."""
    prop = "C16"

    def __init__(self, R):
        Oracle.__init__(self, R)
        self.last_t = None
        self.pauses_busy = 0
        self.pauses = 0

    def before(self, node):
        t = self.R.t
        if self.last_t is not None and t == self.last_t:
            raise OutOfDomain("two events at t=%r (C16 is stated for tie-free runs)" % (t,))
        self.last_t = t

    def segment_end(self, op):
        R = self.R
        if op[0] != "time":
            return
        if R.seg < len(R.S["plan"]):
            self.pauses += 1
            busy = False
            for nd in R.nodes():
                if R.kind(nd) in ("int", "sched") and any(s.busy for s in nd.servers):
                    busy = True
            if busy:
                self.pauses_busy += 1

    def probe(self):
        return self.pauses_busy >= 1


def outcome(R):
    sim = R.sim
    recs = [tuple(r) for r in records_of(sim)]
    stats = []
    for nd in sim.transitive_nodes:
        if R.kind(nd) in ("int", "sched"):
            stats.append((nd.id_number, tuple((s.id_number, s.busy_time, s.total_time) for s in nd.servers),
                          tuple(getattr(nd, "all_servers_busy", ("missing",))), tuple(getattr(nd, "all_servers_total", ("missing",))),
                          getattr(nd, "server_utilisation", "missing")))
    return recs, sim.current_time, stats


def canon(x):
    return repr(x)


def same_stats(x, y, tol=1e-9):
    """server statistics are floating sums whose grouping changes with every pause: equal up to 1e-9 relative"""
    if isinstance(x, (tuple, list)) and isinstance(y, (tuple, list)):
        return len(x) == len(y) and all(same_stats(a, b, tol) for a, b in zip(x, y))
    if isinstance(x, bool) or isinstance(y, bool) or x is None or y is None:
        return x is y or x == y
    try:
        return abs(x - y) <= tol * max(1.0, abs(x), abs(y))
    except TypeError:
        return x == y


def run_c16(S, oracles, wall=20):
    res = run_spec(S, oracles, wall=wall, keep=True)
    RB = res.pop("R", None)
    if res["status"] != "ok" or len(S["plan"]) < 2:
        return res
    A = copy.deepcopy(S)
    A["plan"] = [S["plan"][-1]]       # one call: no pauses, no spawned simulations, no peeks
    resA = run_spec(A, oracles, wall=wall, keep=True)
    RA = resA.pop("R", None)
    if resA["status"] != "ok":
        res["status"] = resA["status"] if resA["status"] in ("discard", "cap") else res["status"]
        return res
    ra, ca, sa = outcome(RA)
    rb, cb, sb = outcome(RB)
    res["counts"]["C16:pairs_compared"] = 1
    res["counts"]["C16:pauses"] = RB.oracles[0].pauses
    res["counts"]["C16:pauses_while_a_server_was_busy"] = RB.oracles[0].pauses_busy
    res["counts"]["C16:records_compared"] = len(ra)
    if canon(ra) != canon(rb):
        k = 0
        while k < min(len(ra), len(rb)) and canon(ra[k]) == canon(rb[k]):
            k += 1
        res.update(status="violation", prop="C16", clause="records-differ",
                   msg="record %d: one call %r, split %r (%d vs %d records)" % (k, ra[k] if k < len(ra) else None, rb[k] if k < len(rb) else None, len(ra), len(rb)))
    elif canon(ca) != canon(cb):
        res.update(status="violation", prop="C16", clause="final-clock-differs", msg="one call %r, split %r" % (ca, cb))
    elif not same_stats(sa, sb):
        d = None
        for x, y in zip(sa, sb):
            if not same_stats(x, y):
                d = (x, y)
                break
        res.update(status="violation", prop="C16", clause="server-statistics-differ",
                   msg="node %s: one call (servers(id,busy,total), killed busy, killed total, utilisation) = %r ; split = %r" % (d[0][0], d[0][1:], d[1][1:]))
    return res
