"""C20 exact arithmetic mode computes event dates as exact decimal sums."""
import copy
from decimal import Decimal
from fractions import Fraction

from ..core import Oracle, run_spec, records_of
from .c12 import date_k

DATE_FIELDS = ("arrival_date", "waiting_time", "service_start_date", "service_time", "service_end_date", "time_blocked", "exit_date")


def F(x):
    return Fraction(str(x))


class C20(Oracle):
    prop = "C20"

    def __init__(self, R):
        Oracle.__init__(self, R)
        self.sums = {}         # stream -> (number of events, Fraction partial sum)
        self.nshift = {}
        self.coincident = 0
        self.last = None
        self.nrec = 0

    def before(self, node):
        R = self.R
        t = R.t
        if not isinstance(t, Decimal) and not (R.ev_type in ("shift_change", "slotted_service") or t == 0):
            self.fail("clock-not-decimal", "%s event at clock %r of type %s" % (R.ev_type, t, type(t).__name__))
        if self.last is not None and F(t) == F(self.last):
            self.coincident += 1
        self.last = t

    def after(self, node, nxt):
        R = self.R
        t = R.t
        if R.ev_type == "arrival":
            key = R.ev_info
            calls = R.log.samples.get(("arr",) + tuple(key), [])
            k, s = self.sums.get(key, (0, Fraction(0)))
            s = s + F(calls[k][3])
            self.sums[key] = (k + 1, s)
            if F(t) != s:
                self.fail("arrival-date-not-exact-sum", "stream %r arrival %d at %r, exact sum of samples %s" % (key, k + 1, t, float(s)))
        elif R.ev_type in ("shift_change", "slotted_service"):
            nid = R.ev_nid
            s = R.S["servers"][nid - 1]
            k = self.nshift.get(nid, 0)
            if s["k"] == "sched":
                exp = s["off"] if k == 0 else date_k(s["off"], s["ends"], k - 1)
            else:
                exp = date_k(s["off"], s["slots"], k)
            self.nshift[nid] = k + 1
            if F(t) != F(exp):
                self.fail("timetable-date-drift", "node %s %s %d at %r, timetable %r" % (nid, R.ev_type, k, t, exp))

    def segment_end(self, op):
        self.check_streams()
        R = self.R
        sim = R.sim
        draws = {}
        pats = {}
        for key, calls in R.log.samples.items():
            if key[0] == "srv":
                for c in calls:
                    draws.setdefault((key[1], c[2], F(c[1])), []).append((c[4], c[3]))
            elif key[0] == "ren":
                for c in calls:
                    pats.setdefault((key[1], c[2], F(c[1])), []).append((c[4], c[3]))
        for v in draws.values():
            v.sort()
        used = {}
        for nd in sim.nodes[1:]:
            for i in nd.all_individuals:
                for r in i.data_records:
                    self.nrec += 1
                    for f in DATE_FIELDS:
                        v = getattr(r, f)
                        if isinstance(v, float) and v != v:
                            continue
                        if not isinstance(v, Decimal):
                            self.fail("record-field-not-decimal", "%s = %r (%s) in %r" % (f, v, type(v).__name__, r))
                        if (F(v) * 1000).denominator != 1:
                            self.fail("date-off-the-decimal-lattice", "%s = %r in %r (all samples and timetable dates have <= 3 decimals)" % (f, v, r))
                    if r.record_type == "service" and "preempt" not in R.feats and "schedpre" not in R.feats and "slotpre" not in R.feats:
                        k3 = (r.node, r.id_number, F(r.service_start_date))
                        j = used.get(k3, 0)
                        d = draws.get(k3, [])
                        if j >= len(d):
                            self.fail("service-without-sample", "%r" % (r,))
                        used[k3] = j + 1
                        if F(r.service_end_date) != F(r.service_start_date) + F(d[j][1]):
                            self.fail("service-end-not-exact-sum", "start %r + sample %r != end %r" % (r.service_start_date, d[j][1], r.service_end_date))
                        if F(r.waiting_time) != F(r.service_start_date) - F(r.arrival_date) or F(r.time_blocked) != F(r.exit_date) - F(r.service_end_date):
                            self.fail("duration-not-exact-difference", "%r" % (r,))
                    elif r.record_type == "renege":
                        p = pats.get((r.node, r.id_number, F(r.arrival_date)))
                        if p and not any(F(r.exit_date) == F(r.arrival_date) + F(x[1]) for x in p):
                            self.fail("renege-date-not-exact-sum", "arrival %r + patience %r != %r" % (r.arrival_date, [x[1] for x in p], r.exit_date))

    def probe(self):
        self.R.counts["C20:coincident_event_pairs"] += self.coincident
        self.R.counts["C20:records_checked"] += self.nrec
        return self.coincident >= 1 and self.nrec >= 10


def numclose(a, b, tol):
    if isinstance(a, float) and a != a:
        return isinstance(b, float) and b != b
    try:
        fa, fb = float(a), float(b)
    except (TypeError, ValueError):
        return a == b
    return abs(fa - fb) <= tol * max(1.0, abs(fa), abs(fb))


def run_c20(S, oracles, wall=20):
    """Lattice/decimal specs: the C20 oracle.  Continuous (tie-free) specs: exact run vs floating-point twin."""
    if S.get("mode") != "cont":
        return run_spec(S, oracles, wall=wall)
    res = run_spec(S, [], wall=wall, keep=True)
    RA = res.pop("R", None)
    if res["status"] != "ok":
        return res
    T = copy.deepcopy(S)
    T["exact"] = None
    res2 = run_spec(T, [], wall=wall, keep=True)
    RB = res2.pop("R", None)
    if res2["status"] != "ok":
        return res
    ra = [tuple(r) for r in records_of(RA.sim)]
    rb = [tuple(r) for r in records_of(RB.sim)]
    # out of domain if two distinct float event dates are closer than 1e-6 (the order could legitimately flip)
    ds = sorted(set(float(r[10]) for r in rb) | set(float(r[4]) for r in rb))
    if any(0 < y - x < 1e-6 for x, y in zip(ds, ds[1:])):
        res.update(status="discard", msg="near-coincident float events")
        return res
    tol = 10.0 ** -(S["exact"] - 3)
    res["counts"]["C20:float_vs_exact_pairs"] = 1
    res["counts"]["C20:records_compared"] = len(ra)
    res["probe"] = len(ra) >= 10
    bad = None
    if len(ra) != len(rb):
        bad = "exact run has %d records, float run %d" % (len(ra), len(rb))
    else:
        for x, y in zip(ra, rb):
            if not all(numclose(u, v, max(tol, 1e-9)) for u, v in zip(x, y)):
                bad = "exact %r vs float %r" % (x, y)
                break
    if bad:
        res.update(status="violation", prop="C20", clause="exact-run-ne-float-run", msg=bad)
    return res
