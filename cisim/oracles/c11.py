"""C11 pre-emptive priorities — no inversion, victim rule, resume/restart/resample bookkeeping."""
from decimal import Decimal

from ..core import Oracle


def isnan(x):
    return x != x


def close(a, b, tol=1e-9):
    if isinstance(a, Decimal) or isinstance(b, Decimal):
        return a == b          # exact arithmetic: no tolerance
    return abs(a - b) <= tol * max(1.0, abs(a), abs(b))


class C11(Oracle):
    prop = "C11"

    def __init__(self, R):
        Oracle.__init__(self, R)
        self.serv = {}         # node -> {ind id: (priority, start clock, seq)}
        self.npre = 0
        self.twice = 0
        self.pre_count = {}

    def option(self, nid):
        p = self.R.S.get("preempt")
        return p[nid - 1] if p else False

    def prio(self, ind):
        """priority of the customer's CURRENT class according to the user's mapping (not the engine's cached attribute)"""
        return (self.R.S.get("prio") or {}).get(ind.customer_class, 0)

    def micro(self, ev):
        k = ev[2]
        R = self.R
        if k == "att":
            nid, iid = ev[3], ev[5]
            c = R.log.last_cust
            self.serv.setdefault(nid, {})[iid] = (self.prio(c), R.t, ev[0])
        elif k == "det":
            nid, iid = ev[3], ev[5]
            sv = self.serv.setdefault(nid, {})
            c = R.log.last_cust
            recs = c.data_records if c is not None and c is not False else []
            pre = bool(recs) and recs[-1].record_type == "interrupted service" and recs[-1].node == nid and recs[-1].exit_date == R.t
            if pre and self.option(nid) and iid in sv:
                self.npre += 1
                n = self.pre_count[(nid, iid)] = self.pre_count.get((nid, iid), 0) + 1
                if n >= 2:
                    self.twice += 1
                # a blocked customer has finished its service: it is not a candidate (and is never the victim)
                nd = R.sim.transitive_nodes[nid - 1]
                blocked = set(i.id_number for i in R.inds(nd) if i.is_blocked)
                if iid in blocked:
                    self.fail("blocked-customer-pre-empted", "node %s pre-empted ind %s, which had finished its service and was blocked" % (nid, iid))
                cands = {j: v for j, v in sv.items() if j not in blocked}
                worst = max(p for p, _, _ in cands.values())
                mine = sv[iid]
                if mine[0] != worst:
                    self.fail("victim-not-lowest-priority", "node %s pre-empted ind %s of priority %s while priority %s is in service" % (nid, iid, mine[0], worst))
                latest = max(st for p, st, _ in cands.values() if p == worst)
                if mine[1] != latest:
                    self.fail("victim-not-most-recently-started", "node %s pre-empted ind %s started %r; a customer of the same priority started %r" % (nid, iid, mine[1], latest))
            sv.pop(iid, None)

    def after(self, node, nxt):
        R = self.R
        for nd in R.nodes():
            if not self.option(nd.id_number) or R.kind(nd) != "int":
                continue
            worst_served = None
            best_waiting = None
            for i in R.inds(nd):
                pr = self.prio(i)
                if i.server:
                    if i.is_blocked:
                        continue      # finished and blocked: keeps its server, cannot be pre-empted
                    if worst_served is None or pr > worst_served[0]:
                        worst_served = (pr, i.id_number)
                else:
                    if best_waiting is None or pr < best_waiting[0]:
                        best_waiting = (pr, i.id_number)
            if worst_served and best_waiting and best_waiting[0] < worst_served[0]:
                self.fail("priority-inversion", "node %s at %r: ind %s of priority %s waits while ind %s of priority %s is in service" % (
                    nd.id_number, R.t, best_waiting[1], best_waiting[0], worst_served[1], worst_served[0]))

    def segment_end(self, op):
        self.check_streams()
        R = self.R
        sim = R.sim
        draws = {}
        for key, calls in R.log.samples.items():
            if key[0] == "srv":
                for c in calls:
                    draws.setdefault((key[1], c[2]), []).append((c[4], c[1], c[3]))   # (seq, t, value)
        for d in draws.values():
            d.sort()
        here = {}
        for nd in sim.transitive_nodes:
            for i in R.inds(nd):
                here[i.id_number] = nd.id_number
        for nd in sim.nodes[1:]:
            for i in nd.all_individuals:
                self.walk(i, draws, here.get(i.id_number))

    def walk(self, ind, draws, where, kinds=("int",)):
        """Walk the customer's records in order, consuming its service-time draws node by node."""
        R = self.R
        iid = ind.id_number
        ptr = {}
        visit = None      # state of the visit in progress: dict(node, s0, left, segs)

        def take(nid, start):
            d = draws.get((nid, iid), [])
            p = ptr.get(nid, 0)
            if p >= len(d):
                self.fail("segment-without-sample", "ind %s at node %s: service start %r has no sample" % (iid, nid, start))
            ptr[nid] = p + 1
            if d[p][1] != start:
                self.fail("sample-not-at-segment-start", "ind %s at node %s: sample drawn at %r, segment starts %r" % (iid, nid, d[p][1], start))
            v = d[p][2]
            if R.S.get("exact") and not isinstance(v, Decimal):
                v = Decimal(str(v))
            return v

        segs = [(r.node, r.record_type, r.service_start_date, r.exit_date, r.service_time, r.service_end_date, r.destination) for r in ind.data_records]
        if where is not None and ind.service_start_date is not False and not isinstance(ind.service_start_date, str):
            segs.append((where, "current", ind.service_start_date, None, ind.service_time, ind.service_end_date, None))
        for nid, ty, start, exit_, stime, end, dest in segs:
            if R.S["servers"][nid - 1]["k"] not in kinds or R.S["ps"][nid - 1] or ty in ("baulk", "rejection"):
                visit = None
                continue
            opt = self.option(nid)
            if ty == "renege":
                visit = None
                continue
            first = visit is None or visit["node"] != nid
            if first:
                s0 = take(nid, start)
                visit = {"node": nid, "s0": s0, "left": s0}
                cur = s0
            else:
                if opt == "resample":
                    cur = take(nid, start)
                elif opt == "restart":
                    cur = visit["s0"]
                else:
                    cur = visit["left"]
            interrupted = ty == "interrupted service"
            if interrupted:
                # the record shows the service time this segment began with
                if opt == "resume":
                    if not close(stime, cur):
                        self.fail("resume-remaining-time", "ind %s node %s: segment at %r begins with %r to go, expected %r" % (iid, nid, start, stime, cur))
                    visit["left"] = cur - (exit_ - start)
                    if visit["left"] < -1e-9:
                        self.fail("resume-overserved", "ind %s node %s served %r beyond its requirement" % (iid, nid, -visit["left"]))
                elif stime != cur:
                    self.fail(str(opt) + "-service-time", "ind %s node %s: segment at %r shows service time %r, expected %r" % (iid, nid, start, stime, cur))
                if not (isinstance(dest, float) and isnan(dest)):
                    visit = None      # rerouted: the visit is over
            else:
                if opt == "resume" and not first:
                    if not close(end - start, cur):
                        self.fail("resume-total-ne-requirement", "ind %s node %s: final segment lasts %r, remaining requirement %r (sample %r)" % (iid, nid, end - start, cur, visit["s0"]))
                elif end != start + cur:
                    self.fail(str(opt) + "-service-time", "ind %s node %s: segment at %r lasts %r, expected %r" % (iid, nid, start, end - start, cur))
                if ty == "service":
                    visit = None
        for (nid, j), d in draws.items():
            if j == iid and R.S["servers"][nid - 1]["k"] in kinds and not R.S["ps"][nid - 1] and ptr.get(nid, 0) != len(d):
                self.fail("extra-service-sample", "ind %s at node %s: %d samples drawn, %d segments account for them (option %r)" % (iid, nid, len(d), ptr.get(nid, 0), self.option(nid)))

    def probe(self):
        R = self.R
        R.counts["C11:preemptions"] += self.npre
        R.counts["C11:same_customer_preempted_twice"] += self.twice
        return self.npre >= 1
