"""C08 service order — checked at the instant of every discipline decision (public seam)."""
from ..core import Oracle


class C08(Oracle):
    prop = "C08"
    wrap_fifo = True

    def __init__(self, R):
        Oracle.__init__(self, R)
        self.lines = {}        # node -> {priority: ids in the order they joined that priority line} (shadow, from micro-events)
        self.where = {}        # (node, id) -> priority line the shadow has it in
        self.inserv = {}       # node -> ids holding a server (shadow, from attach/detach)
        self.decisions = []    # decisions of the current B-event: (node, chosen id)
        self.rich = 0
        self.cc_expected = None
        self.slot_before = None
        R.hooks.decision_cbs.append(self.on_decision)

    def domain(self, node_id):
        return self.R.kind(self.R.sim.transitive_nodes[node_id - 1]) in ("int", "sched", "slot")

    def has_servers(self, node_id):
        return self.R.kind(self.R.sim.transitive_nodes[node_id - 1]) in ("int", "sched")

    def prio_of(self, nid, iid):
        nd = self.R.sim.transitive_nodes[nid - 1]
        for i in self.R.inds(nd):
            if i.id_number == iid:
                return i.priority_class
        return None

    def before(self, node):
        R = self.R
        self.decisions = []
        self.cc_expected = None
        self.slot_before = None
        if R.ev_type == "slotted_service" and not self.has_servers(R.ev_nid):
            self.slot_before = (R.ev_nid, set(i.id_number for i in R.inds(node) if i.server))
        if R.ev_type == "class_change" and self.domain(R.ev_nid):
            # among waiting customers whose class change is due now, the one standing first in the queue changes first
            best = None
            for k in sorted(self.lines.get(R.ev_nid, {})):
                for iid in self.lines[R.ev_nid][k]:
                    if iid in self.inserv.get(R.ev_nid, set()):
                        continue
                    for i in R.inds(node):
                        if i.id_number == iid and getattr(i, "class_change_date", None) == R.t:
                            best = iid
                            break
                    if best is not None:
                        break
                if best is not None:
                    break
            self.cc_expected = best

    def after(self, node, nxt):
        # at a slotted node a service that was not in progress (or interrupted) before the slot starts only by a decision of the discipline
        if self.slot_before is not None:
            nid, had = self.slot_before
            chosen = set(c for n, c in self.decisions if n == nid)
            for i in self.R.inds(self.R.sim.transitive_nodes[nid - 1]):
                if i.server and i.id_number not in had and i.id_number not in chosen:
                    self.fail("service-start-without-decision", "ind %s started at slotted node %s at %r but the discipline did not choose it" % (i.id_number, nid, self.R.t))

    def micro(self, ev):
        k = ev[2]
        if k == "acc":
            nid, iid = ev[3], ev[4]
            p = self.prio_of(nid, iid)
            self.lines.setdefault(nid, {}).setdefault(p, []).append(iid)
            self.where[(nid, iid)] = p
        elif k in ("rel", "ren"):
            nid, iid = ev[3], ev[5]
            p = self.where.pop((nid, iid), None)
            line = self.lines.get(nid, {}).get(p, [])
            if iid in line:
                line.remove(iid)
            self.inserv.setdefault(nid, set()).discard(iid)
        elif k == "att":
            nid, iid = ev[3], ev[5]
            self.inserv.setdefault(nid, set()).add(iid)
            if self.has_servers(nid) and self.R.ev_type != "class_change":
                for j, d in enumerate(self.decisions):
                    if d == (nid, iid):
                        del self.decisions[j]
                        break
                else:
                    self.fail("service-start-without-decision", "ind %s started at node %s (%s event) but the discipline did not choose it" % (iid, nid, self.R.ev_type))
        elif k == "det":
            self.inserv.setdefault(ev[3], set()).discard(ev[5])
        elif k == "cc":
            nid, iid = ev[3], ev[4]
            if self.cc_expected is not None and iid != self.cc_expected and self.domain(nid):
                self.fail("simultaneous-class-changes-out-of-queue-order", "node %s: ind %s changed class at %r before ind %s, which stands ahead of it in the queue and is due at the same instant" % (
                    nid, iid, self.R.t, self.cc_expected))
            self.cc_expected = None
            pm = self.R.S["prio"] or {}
            old, new = pm.get(ev[5], 0), pm.get(ev[6], 0)
            if old != new and (nid, iid) in self.where:
                line = self.lines.get(nid, {}).get(self.where[(nid, iid)], [])
                if iid in line:
                    line.remove(iid)
                self.lines.setdefault(nid, {}).setdefault(new, []).append(iid)     # joins the end of its new priority line
                self.where[(nid, iid)] = new

    def on_decision(self, node_id, name, individuals, t, chosen):
        R = self.R
        if not self.domain(node_id):
            return
        nd = R.sim.transitive_nodes[node_id - 1]
        present = {i.id_number: i for i in R.inds(nd)}
        ins = self.inserv.get(node_id, set())
        if not self.has_servers(node_id):
            # slotted node: no server objects, hence no attach/detach events; a customer in (or interrupted from) service is flagged
            ins = set(i.id_number for i in R.inds(nd) if i.server)
        lines = self.lines.get(node_id, {})
        known = set(i for l in lines.values() for i in l)
        new = [iid for iid in present if iid not in known]
        if len(new) > 1:
            self.fail("several-unannounced-customers", "node %s: %r" % (node_id, new))
        cand = {}
        for p, l in lines.items():
            w = [iid for iid in l if iid in present and iid not in ins]
            if w:
                cand[p] = w
        for iid in new:       # the customer being accepted right now: last of its priority line
            cand.setdefault(present[iid].priority_class, []).append(iid)
        cid = getattr(chosen, "id_number", None)
        if not cand:
            self.fail("decision-with-nobody-waiting", "node %s chose %r" % (node_id, cid))
        allc = [i for l in cand.values() for i in l]
        if cid not in allc:
            self.fail("chosen-customer-not-waiting", "node %s chose ind %r; waiting: %r" % (node_id, cid, allc))
        best = min(cand)
        bestc = cand[best]
        if cid not in bestc:
            self.fail("lower-priority-chosen", "node %s chose ind %s of priority %s while priority %s waits (%r)" % (node_id, cid, present[cid].priority_class, best, bestc))
        if name == "FIFO" and cid != bestc[0]:
            self.fail("fifo-order", "node %s FIFO chose ind %s, earliest waiting of the class is %s (%r)" % (node_id, cid, bestc[0], bestc))
        if name == "LIFO" and cid != bestc[-1]:
            self.fail("lifo-order", "node %s LIFO chose ind %s, latest waiting of the class is %s (%r)" % (node_id, cid, bestc[-1], bestc))
        if len(allc) >= 2 and len(set(present[i].customer_class for i in allc)) >= 2:
            self.rich += 1
        self.decisions.append((node_id, cid))

    def probe(self):
        self.R.counts["C08:rich_decisions"] += self.rich
        return self.rich >= 1
