"""C08 service order — checked at the instant of every discipline decision (public seam)."""
from ..core import Oracle


class C08(Oracle):
    prop = "C08"
    wrap_fifo = True

    def __init__(self, R):
        Oracle.__init__(self, R)
        self.order = {}        # node -> ids in order of acceptance (shadow)
        self.inserv = {}       # node -> ids holding a server (shadow, from attach/detach)
        self.moved = set()     # (node, id) whose priority class changed while waiting in this visit
        self.decisions = []    # decisions of the current B-event: (node, chosen id)
        self.rich = 0
        R.hooks.decision_cbs.append(self.on_decision)

    def domain(self, node_id):
        return self.R.kind(self.R.sim.transitive_nodes[node_id - 1]) in ("int", "sched")

    def before(self, node):
        self.decisions = []

    def micro(self, ev):
        k = ev[2]
        if k == "acc":
            self.order.setdefault(ev[3], []).append(ev[4])
        elif k in ("rel", "ren"):
            nid, iid = ev[3], ev[5]
            o = self.order.get(nid, [])
            if iid in o:
                o.remove(iid)
            self.moved.discard((nid, iid))
            self.inserv.setdefault(nid, set()).discard(iid)
        elif k == "att":
            nid, iid = ev[3], ev[5]
            self.inserv.setdefault(nid, set()).add(iid)
            if self.domain(nid) and self.R.ev_type != "class_change":
                for j, d in enumerate(self.decisions):
                    if d == (nid, iid):
                        del self.decisions[j]
                        break
                else:
                    self.fail("service-start-without-decision", "ind %s started at node %s (%s event) but the discipline did not choose it" % (iid, nid, self.R.ev_type))
        elif k == "det":
            self.inserv.setdefault(ev[3], set()).discard(ev[5])
        elif k == "cc":
            nid, iid = ev[3], ev[4]
            pm = self.R.S["prio"] or {}
            if pm.get(ev[5], 0) != pm.get(ev[6], 0):
                self.moved.add((nid, iid))

    def on_decision(self, node_id, name, individuals, t, chosen):
        R = self.R
        if not self.domain(node_id):
            return
        nd = R.sim.transitive_nodes[node_id - 1]
        present = {i.id_number: i for i in R.inds(nd)}
        order = self.order.get(node_id, [])
        known = set(order)
        ins = self.inserv.get(node_id, set())
        cand = [iid for iid in order if iid in present and iid not in ins]
        new = [iid for iid in present if iid not in known]
        if len(new) > 1:
            self.fail("several-unannounced-customers", "node %s: %r" % (node_id, new))
        cand += new
        cid = getattr(chosen, "id_number", None)
        if not cand:
            self.fail("decision-with-nobody-waiting", "node %s chose %r" % (node_id, cid))
        if cid not in cand:
            self.fail("chosen-customer-not-waiting", "node %s chose ind %r; waiting: %r" % (node_id, cid, cand))
        best = min(present[i].priority_class for i in cand)
        bestc = [i for i in cand if present[i].priority_class == best]
        if present[cid].priority_class != best:
            self.fail("lower-priority-chosen", "node %s chose ind %s of priority %s while priority %s waits (%r)" % (node_id, cid, present[cid].priority_class, best, bestc))
        if not any((node_id, i) in self.moved for i in bestc):
            if name == "FIFO" and cid != bestc[0]:
                self.fail("fifo-order", "node %s FIFO chose ind %s, earliest waiting of the class is %s (%r)" % (node_id, cid, bestc[0], bestc))
            if name == "LIFO" and cid != bestc[-1]:
                self.fail("lifo-order", "node %s LIFO chose ind %s, latest waiting of the class is %s (%r)" % (node_id, cid, bestc[-1], bestc))
        if len(cand) >= 2 and len(set(present[i].customer_class for i in cand)) >= 2:
            self.rich += 1
        self.decisions.append((node_id, cid))

    def probe(self):
        self.R.counts["C08:rich_decisions"] += self.rich
        return self.rich >= 1
