"""C09 routing and class-change fidelity — every transition against the routing specification."""
from ..core import Oracle

INF = float("inf")


class C09(Oracle):
    prop = "C09"

    def __init__(self, R):
        Oracle.__init__(self, R)
        self.snap = None
        self.cyc = {}          # (class, node) -> number of decisions taken by that Cycle router
        self.pbpos = {}        # ind -> position in its process-based route
        self.fpb = {}          # ind -> remaining list of sets
        self.kinds = set()
        self.unequal = 0
        self.decisions = 0

    # state the routers look at, taken before the event --------------------------------------
    def metrics(self):
        R = self.R
        m = {}
        for nd in R.nodes():
            inds = R.inds(nd)
            kd = R.kind(nd)
            if kd in ("inf", "ps"):
                waiting = 0 if kd == "inf" else None
            else:
                waiting = sum(1 for i in inds if (not i.server) or i.interrupted)
            m[nd.id_number] = (waiting, len(inds))
        return m

    def before(self, node):
        self.snap = self.metrics() if self.R.ev_type == "end_service" else None

    def find(self, iid):
        for nd in self.R.sim.nodes[1:]:
            for i in nd.all_individuals:
                if i.id_number == iid:
                    return i
        return None

    def after(self, node, nxt):
        R = self.R
        pm = R.S["prio"] or {}
        for nd in R.nodes():
            for k, lst in enumerate(nd.individuals):
                for i in lst:
                    want = pm.get(i.customer_class, 0)
                    if i.priority_class != want:
                        self.fail("priority-ne-class-priority", "ind %s class %s has priority %s, mapping says %s" % (i.id_number, i.customer_class, i.priority_class, want))
                    # a blocked customer whose class changed at the end of its service stays in the line it was served from
                    if k != want and not i.is_blocked:
                        self.fail("queued-in-wrong-priority-line", "ind %s of class %s (priority %s) stands in priority line %s of node %s" % (
                            i.id_number, i.customer_class, want, k, nd.id_number))
        main = None
        if R.ev_type == "end_service":
            main = self.after_end_service()
        # pre-emptive reroutes (a shift end or a pre-empting arrival sends the victim on): transitions like any other,
        # decided by the same routing object (next_node_for_rerouting defaults to next_node)
        for ev in R.log.micro[R.micro_from:]:
            if ev[2] != "rel" or ev[6] or ev is main:
                continue
            nid, d, iid = ev[3], ev[4], ev[5]
            ind = self.find(iid)
            if ind is None:
                continue
            for r in reversed(ind.data_records):
                if r.record_type == "interrupted service" and r.node == nid and r.exit_date == R.t and r.destination == d:
                    R.counts["C09:reroute_transitions"] += 1
                    self.decisions += 1
                    self.check_route(r.customer_class, nid, d, ind, reroute=True)
                    break

    def after_end_service(self):
        R = self.R
        j = R.ev_nid
        first = None
        for ev in R.log.micro[R.micro_from:]:
            if ev[2] == "blk" and ev[3] == j:
                first = (ev[5], ev[4], True)
                main = ev
                break
            if ev[2] == "rel" and ev[3] == j:
                first = (ev[5], ev[4], False)
                main = ev
                break
        if first is None:
            self.fail("end-of-service-without-transition", "node %s at %r" % (j, R.t))
        iid, d, blocked = first
        ind = self.find(iid)
        if ind is None:
            self.fail("customer-vanished", "ind %s" % iid)
        new = ind.customer_class
        if blocked:
            old = ind.previous_class
        else:
            old = None
            for r in reversed(ind.data_records):
                if r.node == j and r.record_type == "service":
                    old = r.customer_class
                    break
        ccm = R.S.get("ccm")
        if ccm:
            p = ccm[j - 1].get(old, {}).get(new, 0.0)
            if not p > 0:
                self.fail("class-change-of-probability-zero", "ind %s at node %s changed %s -> %s (p=%r)" % (iid, j, old, new, p))
            if old != new:
                R.counts["C09:class_changes"] += 1
        elif old != new:
            self.fail("class-changed-without-matrix", "ind %s at node %s changed %s -> %s" % (iid, j, old, new))
        self.decisions += 1
        self.check_route(new, j, d, ind)
        return main

    def check_route(self, cls, j, d, ind, reroute=False):
        R = self.R
        n = R.S["n"]
        rt = R.S["routing"][cls]
        k = rt["k"]
        iid = ind.id_number
        if k == "matrix":
            self.kinds.add("matrix")
            row = rt["M"][j - 1]
            probs = row + [1 - sum(row)]
            p = probs[n] if d == -1 else (probs[d - 1] if 1 <= d <= n else 0.0)
            if not p > 0:
                self.fail("transition-of-probability-zero", "ind %s class %s went %s -> %s, matrix probability %r" % (iid, cls, j, d, p))
            return
        if k == "net":
            x = rt["routers"][j - 1]
            kk = x["k"]
            self.kinds.add(kk)
            if kk == "prob":
                dests = list(x["dests"]) + [-1]
                probs = list(x["probs"]) + [1 - sum(x["probs"])]
                p = sum(pp for dd, pp in zip(dests, probs) if dd == d)
                if not p > 0:
                    self.fail("transition-of-probability-zero", "ind %s class %s went %s -> %s, router probability %r" % (iid, cls, j, d, p))
            elif kk == "leave":
                if d != -1:
                    self.fail("leave-router-did-not-leave", "ind %s went %s -> %s" % (iid, j, d))
            elif kk == "direct":
                if d != x["to"]:
                    self.fail("direct-router-wrong-destination", "ind %s went %s -> %s, Direct(to=%s)" % (iid, j, d, x["to"]))
            elif kk == "cycle":
                c = self.cyc.get((cls, j), 0)
                exp = x["cycle"][c % len(x["cycle"])]
                self.cyc[(cls, j)] = c + 1
                if d != exp:
                    self.fail("cycle-router-out-of-step", "decision %d of Cycle%r at node %s class %s went to %s, expected %s" % (c, x["cycle"], j, cls, d, exp))
            elif kk in ("jsq", "lb"):
                if reroute:
                    if d not in x["dests"]:
                        self.fail("destination-not-listed", "ind %s rerouted %s -> %s, %s router lists %r" % (iid, j, d, kk, x["dests"]))
                else:
                    self.check_shortest(kk, x["dests"], x["tb"], d, iid, j)
            return
        if k == "pb":
            self.kinds.add("pb")
            route = R.B.routes_given.get(iid)
            if route is None:
                self.fail("no-route-given", "ind %s" % iid)
            pos = self.pbpos.get(iid, 0)
            exp = route[pos] if pos < len(route) else -1
            self.pbpos[iid] = pos + 1
            if d != exp:
                self.fail("process-route-not-followed", "ind %s route %r step %d went %s -> %s, expected %s" % (iid, route, pos, j, d, exp))
            return
        if k == "fpb":
            self.kinds.add("fpb")
            if iid not in self.fpb:
                route = R.B.routes_given.get(iid)
                if route is None:
                    self.fail("no-route-given", "ind %s" % iid)
                self.fpb[iid] = [list(s) for s in route]
            rem = self.fpb[iid]
            if not rem:
                if d != -1:
                    self.fail("process-route-not-followed", "ind %s finished its flexible route but went %s -> %s" % (iid, j, d))
                return
            cur = rem[0]
            if d not in cur:
                self.fail("process-route-not-followed", "ind %s went %s -> %s, current set %r" % (iid, j, d, cur))
            if rt["choice"] in ("jsq", "lb"):
                if not reroute:
                    self.check_shortest(rt["choice"], cur, "random", d, iid, j)
            if rt["rule"] == "any":
                rem.pop(0)
            else:
                cur.remove(d)
                if not cur:
                    rem.pop(0)

    def check_shortest(self, kind, dests, tb, d, iid, j):
        snap = self.snap
        idx = 0 if kind == "jsq" else 1
        if d not in dests:
            self.fail("shortest-queue-destination-not-listed", "ind %s went %s -> %s, listed %r" % (iid, j, d, dests))
        vals = [snap[x][idx] for x in dests]
        if any(v is None for v in vals):
            return
        best = min(vals)
        if snap[d][idx] != best:
            self.fail("not-the-shortest", "ind %s (%s) went %s -> %s with %s, but %r have %r" % (iid, kind, j, d, snap[d][idx], dests, vals))
        if tb == "order":
            firstbest = dests[vals.index(best)]
            if d != firstbest:
                self.fail("tie-break-order-violated", "ind %s went to %s, first minimal listed is %s (%r -> %r)" % (iid, d, firstbest, dests, vals))
        if len(set(vals)) > 1:
            self.unequal += 1

    def probe(self):
        R = self.R
        R.counts["C09:decisions"] += self.decisions
        R.counts["C09:unequal_shortest_decisions"] += self.unequal
        for k in self.kinds:
            R.counts["C09:kind:" + k] += 1
        return self.decisions >= 1 and len(self.kinds) >= 1
