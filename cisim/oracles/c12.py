"""C12 server schedules and slotted services follow the declared cyclic timetable."""
from ..core import Oracle
from .c11 import C11, isnan

EPS = 1e-9


def on_duty_allowed(s, t):
    """Set of server counts the documented timetable allows at time t (both neighbours at a boundary)."""
    off, ends, cs = s["off"], s["ends"], s["cs"]
    cyc = ends[-1]
    out = set()
    for tt in (t - EPS, t, t + EPS):
        if tt < off:
            out.add(0)
            continue
        x = (tt - off) % cyc
        for e, c in zip(ends, cs):
            if x < e:
                out.add(c)
                break
        else:
            out.add(cs[0])
    return out


def date_k(off, ends, k):
    """k-th boundary date, written the way the documentation describes the cycle (same float expression as the engine)."""
    m = len(ends)
    return off + ends[k % m] + (k // m) * ends[-1]


class C12(C11):
    prop = "C12"

    def __init__(self, R):
        C11.__init__(self, R)
        self.nshift = {}       # node -> number of shift-change / slot events seen
        self.pre = None
        self.shift_end = {}    # (node, server id) -> clock of the shift change that sent it off duty
        self.overtime_len = {}
        self.starts = {}       # slot node: ind id -> last seen service_start_date
        self.inflight_at_shift_end = 0
        self.slot_excess = 0

    # C11.walk uses option(): here the option is the schedule's pre-emption option
    def option(self, nid):
        s = self.R.S["servers"][nid - 1]
        return s.get("pre", False) if s["k"] in ("sched", "slot") else False

    def micro(self, ev):
        R = self.R
        if ev[2] == "att":
            nid = ev[3]
            s = R.S["servers"][nid - 1]
            if s["k"] != "sched":
                return
            c = R.log.last_cust
            nd = R.sim.transitive_nodes[nid - 1]
            srv = c.server
            if srv is False or srv is None or srv.offduty or not any(srv is x for x in nd.servers):
                self.fail("service-start-on-off-duty-server", "ind %s at node %s t=%r" % (c.id_number, nid, R.t))
            if not any(x >= 1 for x in on_duty_allowed(s, float(R.t))):
                self.fail("service-start-while-zero-scheduled", "ind %s at node %s t=%r" % (c.id_number, nid, R.t))
            ints = [i for i in R.inds(nd) if i.interrupted]
            if c.interrupted:
                best = min((i.priority_class, i.arrival_date) for i in ints)
                if (c.priority_class, c.arrival_date) != best:
                    self.fail("interrupted-restart-order", "node %s restarted ind %s (%r) before %r" % (nid, c.id_number, (c.priority_class, c.arrival_date), best))
                R.counts["C12:interrupted_restarts"] += 1
            elif ints:
                self.fail("fresh-customer-before-interrupted", "node %s started fresh ind %s while %r are interrupted" % (nid, c.id_number, [i.id_number for i in ints]))

    def before(self, node):
        R = self.R
        self.pre = None
        if R.ev_nid == 0:
            return
        s = R.S["servers"][R.ev_nid - 1]
        nd = node
        if s["k"] == "sched" and R.ev_type != "shift_change":
            # within a node a shift change that is due now comes before the node's other events due now:
            # otherwise the node acts at t with the server count of the shift that has just ended
            k = self.nshift.get(R.ev_nid, 0)
            due = s["off"] if k == 0 else date_k(s["off"], s["ends"], k - 1)
            if float(R.t) == due:
                self.fail("node-event-before-due-shift-change", "node %s executed %s at t=%r although its shift change %d is due at that instant" % (R.ev_nid, R.ev_type, R.t, k))
        if R.ev_type == "shift_change" and s["k"] == "sched":
            self.pre = ("shift", {x.id_number: (x.busy, getattr(x.cust, "id_number", None), x.next_end_service_date, x.offduty,
                                               len(x.cust.data_records) if x.busy and x.cust else 0) for x in nd.servers})
        elif R.ev_type == "slotted_service" and s["k"] == "slot":
            inds = R.inds(nd)
            self.pre = ("slot", sum(1 for i in inds if i.server and not i.interrupted), nd.schedule.slot_size)

    def after(self, node, nxt):
        R = self.R
        t = R.t
        for nd in R.nodes():
            nid = nd.id_number
            s = R.S["servers"][nid - 1]
            if s["k"] == "sched":
                allowed = on_duty_allowed(s, float(t))
                onduty = sum(1 for x in nd.servers if not x.offduty)
                if onduty not in allowed or nd.c not in allowed:
                    self.fail("on-duty-count-ne-timetable", "node %s at t=%r: %d on duty (c=%s), timetable allows %r" % (nid, t, onduty, nd.c, sorted(allowed)))
                # overtime bookkeeping: servers that disappeared in this event
                ids = set(x.id_number for x in nd.servers)
                for x in nd.servers:
                    if x.offduty and (nid, x.id_number) not in self.shift_end:
                        self.shift_end[(nid, x.id_number)] = t
                prev = self.overtime_len.get(nid, 0)
                new = list(nd.overtime[prev:])
                self.overtime_len[nid] = len(nd.overtime)
                gone = [k for k in list(self.shift_end) if k[0] == nid and k[1] not in ids]
                exp = []
                for k in gone:
                    exp.append(float(t) - float(self.shift_end.pop(k)))
                if self.pre is not None and self.pre[0] == "shift" and R.ev_nid == nid:
                    for sid, (busy, cid, end, offd, nrec) in self.pre[1].items():
                        if sid not in ids and (nid, sid) not in gone and not offd:
                            exp.append(0.0)
                if sorted(float(x) for x in new) != sorted(float(x) for x in exp) and not R.S.get("exact"):
                    self.fail("overtime-bookkeeping", "node %s at t=%r: overtime entries %r, departures imply %r" % (nid, t, new, exp))
            elif s["k"] == "slot":
                # service starts at a slotted node only in slot events
                cur = {}
                started = 0
                for i in R.inds(nd):
                    st = i.service_start_date
                    cur[i.id_number] = (st, i.arrival_date)
                    if st is not False and self.starts.get(i.id_number) != (st, i.arrival_date) and not isinstance(st, str):
                        started += 1
                        if not (R.ev_type == "slotted_service" and R.ev_nid == nid):
                            self.fail("slotted-start-outside-slot", "ind %s at node %s started at %r in a %s event" % (i.id_number, nid, t, R.ev_type))
                self.starts = {k: v for k, v in self.starts.items() if k not in cur or True}
                self.starts.update(cur)
                if R.ev_type == "slotted_service" and R.ev_nid == nid and self.pre and self.pre[0] == "slot":
                    _, in_before, size = self.pre
                    k = self.nshift.get(nid, 0)
                    want_size = s["sizes"][k % len(s["sizes"])]
                    if size != want_size:
                        self.fail("slot-size-ne-table", "node %s slot %d has size %s, table says %s" % (nid, k, size, want_size))
                    if started > want_size:
                        self.fail("more-starts-than-slot-size", "node %s slot at %r started %d > %d" % (nid, t, started, want_size))
                    if s["cap"]:
                        in_after = sum(1 for i in R.inds(nd) if i.server and not i.interrupted)
                        if s["pre"]:
                            if in_after > want_size:
                                self.fail("capacitated-slot-exceeded", "node %s after slot at %r: %d in service, size %d" % (nid, t, in_after, want_size))
                        elif started > max(want_size - in_before, 0):
                            self.fail("capacitated-slot-exceeded", "node %s slot at %r: %d already in service, started %d, size %d" % (nid, t, in_before, started, want_size))
                    if len([1 for i in R.inds(nd) if not i.server]) > 0 and started == want_size:
                        self.slot_excess += 1
        # the event itself: executed exactly at the timetable date
        if R.ev_nid and R.ev_type in ("shift_change", "slotted_service"):
            nid = R.ev_nid
            s = R.S["servers"][nid - 1]
            k = self.nshift.get(nid, 0)
            if s["k"] == "sched":
                exp = s["off"] if k == 0 else date_k(s["off"], s["ends"], k - 1)
            else:
                exp = date_k(s["off"], s["slots"], k)
            if float(t) != exp:
                self.fail("timetable-event-date", "node %s %s event %d at %r, timetable says %r" % (nid, R.ev_type, k, t, exp))
            self.nshift[nid] = k + 1
            if self.pre is not None and self.pre[0] == "shift":
                nd = node
                now = {x.id_number: x for x in nd.servers}
                for sid, (busy, cid, end, offd, nrec) in self.pre[1].items():
                    if not busy:
                        continue
                    self.inflight_at_shift_end += 1
                    if not s["pre"]:
                        x = now.get(sid)
                        if x is None or not x.busy or getattr(x.cust, "id_number", None) != cid or x.next_end_service_date != end or not x.offduty:
                            self.fail("overtime-service-disturbed", "node %s shift end at %r: server %s with ind %s (end %r) did not stay to finish" % (nid, t, sid, cid, end))
                    else:
                        ind = self.find(cid)
                        recs = ind.data_records if ind is not None else []
                        newrecs = recs[nrec:]
                        if not newrecs or newrecs[0].record_type != "interrupted service" or newrecs[0].exit_date != t or newrecs[0].node != nid:
                            self.fail("in-flight-service-not-interrupted-at-shift-end", "node %s shift end at %r: ind %s on server %s has new records %r" % (
                                nid, t, cid, sid, [(r.record_type, r.exit_date) for r in newrecs]))

    def find(self, iid):
        for nd in self.R.sim.nodes[1:]:
            for i in nd.all_individuals:
                if i.id_number == iid:
                    return i
        return None

    def segment_end(self, op):
        R = self.R
        if op[0] == "time":
            T = op[1]
            for nd in R.nodes():
                nid = nd.id_number
                s = R.S["servers"][nid - 1]
                if s["k"] not in ("sched", "slot"):
                    continue
                k = self.nshift.get(nid, 0)
                if s["k"] == "sched":
                    nxt = s["off"] if k == 0 else date_k(s["off"], s["ends"], k - 1)
                else:
                    nxt = date_k(s["off"], s["slots"], k)
                if nxt < T:
                    self.fail("timetable-event-missed", "node %s: event %d due at %r was not executed before the horizon %r" % (nid, k, nxt, T))
        # resume / restart / resample bookkeeping for schedule interruptions (shared with C11)
        sim = R.sim
        draws = {}
        for key, calls in R.log.samples.items():
            if key[0] == "srv":
                for c in calls:
                    draws.setdefault((key[1], c[2]), []).append((c[4], c[1], c[3]))
        for d in draws.values():
            d.sort()
        here = {}
        for nd in sim.transitive_nodes:
            for i in R.inds(nd):
                here[i.id_number] = nd.id_number
        for nd in sim.nodes[1:]:
            for i in nd.all_individuals:
                self.walk(i, draws, here.get(i.id_number), kinds=("sched",))

    def probe(self):
        R = self.R
        R.counts["C12:services_in_flight_at_shift_end"] += self.inflight_at_shift_end
        R.counts["C12:slots_with_more_waiting_than_size"] += self.slot_excess
        return self.inflight_at_shift_end >= 1 or self.slot_excess >= 1
