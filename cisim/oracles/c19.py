"""C19 processor sharing: rate shared correctly, work conserved; metamorphic PS(inf, R=1) vs FIFO/1."""
import copy

from ..core import Oracle, run_spec

INF = float("inf")


def close(a, b, tol):
    return abs(a - b) <= tol * max(1.0, abs(a), abs(b))


class C19(Oracle):
    prop = "C19"

    def __init__(self, R):
        Oracle.__init__(self, R)
        self.tl = {}           # node -> [(t, population after the change)]
        self.order = {}        # node -> ids in order of arrival (shadow)
        self.shared = 0
        self.changed_during = 0
        self.empties = {}      # node -> instants at which the node became empty

    def ps_nodes(self):
        return [nd for nd in self.R.nodes() if self.R.S["ps"][nd.id_number - 1]]

    def cap(self, nid):
        s = self.R.S["servers"][nid - 1]
        return INF if s["k"] == "inf" else s["c"]

    def micro(self, ev):
        k = ev[2]
        if k == "acc":
            nid = ev[3]
            self.order.setdefault(nid, []).append(ev[4])
            self._pop(nid, +1)
        elif k in ("rel", "ren"):
            nid = ev[3]
            o = self.order.get(nid, [])
            if ev[5] in o:
                o.remove(ev[5])
            self._pop(nid, -1)

    def _pop(self, nid, d):
        tl = self.tl.setdefault(nid, [(0.0, 0)])
        n = tl[-1][1] + d
        tl.append((self.R.t, n))
        if n == 0:
            self.empties.setdefault(nid, []).append(self.R.t)

    def after(self, node, nxt):
        R = self.R
        for nd in self.ps_nodes():
            nid = nd.id_number
            cap = self.cap(nid)
            inds = R.inds(nd)
            sharing = [i.id_number for i in inds if getattr(i, "with_server", False)]
            want = min(len(inds), cap)
            if len(sharing) > cap:
                self.fail("more-sharers-than-capacity", "node %s: %d share, capacity %s" % (nid, len(sharing), cap))
            if len(sharing) != want:
                self.fail("free-share-while-customer-waits", "node %s at t=%r: %d share, population %d, capacity %s" % (nid, R.t, len(sharing), len(inds), cap))
            prefix = self.order.get(nid, [])[:want]
            if sorted(sharing) != sorted(prefix):
                self.fail("sharers-not-first-come", "node %s: sharing %r, longest present %r" % (nid, sorted(sharing), sorted(prefix)))
            if len(sharing) >= 2:
                self.shared += 1

    def rate_integral(self, nid, a, b):
        """work received between a and b by one sharer at node nid, from the harness's own population timeline"""
        thr = self.R.S["ps_thr"][nid - 1]
        cap = self.cap(nid)
        tl = self.tl.get(nid, [(0.0, 0)])
        tot = 0.0
        changes = 0
        for k, (t, n) in enumerate(tl):
            t1 = tl[k + 1][0] if k + 1 < len(tl) else INF
            lo, hi = max(t, a), min(t1, b)
            if hi > lo:
                occ = min(n, cap)
                tot += (hi - lo) * min(1.0, thr / occ) if occ > 0 else 0.0
            if a < t < b:
                changes += 1
        return tot, changes

    def segment_end(self, op):
        R = self.R
        sim = R.sim
        reqs = {}
        for key, calls in R.log.samples.items():
            if key[0] == "srv" and R.S["ps"][key[1] - 1]:
                for c in calls:
                    reqs.setdefault((key[1], c[2], c[1]), []).append((c[4], c[3]))
        for v in reqs.values():
            v.sort()
        used = {}
        for nd in sim.nodes[1:]:
            for i in nd.all_individuals:
                for r in i.data_records:
                    if r.record_type != "service" or not R.S["ps"][r.node - 1]:
                        continue
                    k3 = (r.node, r.id_number, r.service_start_date)
                    j = used.get(k3, 0)
                    lst = reqs.get(k3, [])
                    if j >= len(lst):
                        self.fail("ps-service-without-requirement", "ind %s at node %s start %r" % (r.id_number, r.node, r.service_start_date))
                    used[k3] = j + 1
                    req = lst[j][1]
                    work, changes = self.rate_integral(r.node, r.service_start_date, r.service_end_date)
                    if changes:
                        self.changed_during += 1
                    if not close(work, req, 1e-7):
                        self.fail("work-received-ne-requirement", "ind %s at PS node %s: served [%r,%r], work received %r, requirement %r" % (
                            r.id_number, r.node, r.service_start_date, r.service_end_date, work, req))
        tnow = op[1] if op[0] == "time" else R.t
        for nd in self.ps_nodes():
            nid = nd.id_number
            for i in R.inds(nd):
                if not getattr(i, "with_server", False) or i.is_blocked:
                    continue
                lst = reqs.get((nid, i.id_number, i.service_start_date), [])
                if not lst:
                    self.fail("ps-service-without-requirement", "ind %s sharing at node %s since %r" % (i.id_number, nid, i.service_start_date))
                work, _ = self.rate_integral(nid, i.service_start_date, min(tnow, R.t) if op[0] != "time" else R.t)
                if work > lst[-1][1] * (1 + 1e-7) + 1e-9:
                    self.fail("overserved", "ind %s at PS node %s has received %r > requirement %r and is still there" % (i.id_number, nid, work, lst[-1][1]))

    def probe(self):
        R = self.R
        R.counts["C19:events_with>=2_sharers"] += self.shared
        R.counts["C19:services_with_occupancy_change"] += self.changed_during
        return self.shared >= 1 and self.changed_during >= 1


def run_c19(S, oracles, wall=20):
    """Normal run; for metamorphic specs additionally run the FIFO single-server twin and compare emptying instants."""
    res = run_spec(S, oracles, wall=wall, keep=bool(S.get("meta_ps")))
    if not S.get("meta_ps") or res["status"] != "ok":
        res.pop("R", None)
        return res
    R = res.pop("R")
    emp_ps = R.oracles[0].empties.get(1, [])
    T = copy.deepcopy(S)
    T["ps"] = [False]
    T["servers"] = [{"k": "int", "c": 1}]
    T.pop("meta_ps")
    res2 = run_spec(T, oracles, wall=wall, keep=True)
    if res2["status"] != "ok":
        res["counts"]["C19:twin_not_ok"] = 1
        return res
    emp_ff = res2["R"].oracles[0].empties.get(1, [])
    res["counts"]["C19:metamorphic_pairs"] = 1
    res["counts"]["C19:emptying_instants_compared"] = len(emp_ps)
    bad = len(emp_ps) != len(emp_ff) or any(not close(a, b, 1e-9) for a, b in zip(emp_ps, emp_ff))
    if bad:
        res.update(status="violation", prop="C19", clause="ps-and-fifo-empty-at-different-instants",
                   msg="PS(inf,R=1) empties at %r..., FIFO/1 twin at %r..." % (emp_ps[:6], emp_ff[:6]))
    return res
