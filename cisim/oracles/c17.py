"""C17 state trackers equal the true configuration; probabilities are time shares."""
import random
from decimal import Decimal

from ..core import Oracle


class C17(Oracle):
    prop = "C17"

    def __init__(self, R):
        Oracle.__init__(self, R)
        self.border = []        # global blocking order: (node, dest, ind)
        self.timeline = []      # (clock, true state) after every event
        self.changes = 0
        self.blockages = 0
        self.tr = R.S.get("tracker")

    def micro(self, ev):
        k = ev[2]
        if k == "blk":
            self.border.append((ev[3], ev[4], ev[5]))
            self.blockages += 1
        elif k == "rel" and ev[6]:
            for j, b in enumerate(self.border):
                if b[0] == ev[3] and b[2] == ev[5]:
                    del self.border[j]
                    break

    def truth(self):
        R = self.R
        tr = self.tr
        if tr is None:
            return None
        kind = tr["k"]
        nodes = R.nodes()
        pops = [len(R.inds(nd)) for nd in nodes]
        if kind == "SystemPopulation":
            return sum(pops)
        if kind == "NodePopulation":
            return tuple(pops)
        if kind == "NodePopulationSubset":
            return tuple(pops[o] for o in tr["obs"])
        if kind == "GroupedNodePopulation":
            return tuple(sum(pops[o] for o in g) for g in tr["groups"])
        if kind == "NodeClassMatrix":
            order = tr.get("order") or sorted(R.S["classes"])
            out = []
            for nd in nodes:
                cnt = {c: 0 for c in order}
                for i in R.inds(nd):
                    # narrowing: a blocked customer whose class changed at the end of its service is still
                    # counted under the class it held while it was served (the tracker is told at release)
                    c = i.previous_class if i.is_blocked else i.customer_class
                    cnt[c] = cnt.get(c, 0) + 1
                out.append(tuple(cnt[c] for c in order))
            return tuple(out)
        if kind == "NaiveBlocking":
            out = []
            for nd in nodes:
                b = sum(1 for i in R.inds(nd) if i.is_blocked)
                out.append((len(R.inds(nd)) - b, b))
            return tuple(out)
        if kind == "MatrixBlocking":
            n = len(nodes)
            m = [[[] for _ in range(n)] for _ in range(n)]
            for rank, (a, d, iid) in enumerate(self.border, 1):
                m[a - 1][d - 1].append(rank)
            return (tuple(tuple(tuple(x) for x in row) for row in m), tuple(pops))
        raise RuntimeError(kind)

    @staticmethod
    def negatives(x):
        if isinstance(x, (tuple, list)):
            return any(C17.negatives(y) for y in x)
        return isinstance(x, int) and x < 0

    def after(self, node, nxt):
        R = self.R
        want = self.truth()
        got = R.sim.statetracker.hash_state()
        if self.negatives(got):
            self.fail("negative-count", "tracker state %r" % (got,))
        if got != want:
            self.fail("state-ne-configuration", "%s after %s at t=%r: tracker %r, configuration %r" % (self.tr and self.tr["k"], R.ev_type, R.t, got, want))
        if not self.timeline or self.timeline[-1][1] != want:
            self.changes += 1
        self.timeline.append((R.t, want))

    def segment_end(self, op):
        R = self.R
        if op[0] in ("deadlock",):
            return
        tracker = R.sim.statetracker
        hist = tracker.history
        # expected history: initial state at time 0, then each change once
        exp = []
        last = object()
        first = True
        for t, s in self.timeline:
            if first:
                first = False
            if s != last:
                exp.append([t, s])
                last = s
        init = [0.0, self.init_state()]
        if exp and exp[0][1] == init[1]:
            exp = exp[1:]
        exp = [init] + exp
        prev = None
        for h in hist:
            if prev is not None:
                if not (h[0] >= prev[0]):
                    self.fail("history-timestamps-decrease", "%r then %r" % (prev, h))
                if h[1] == prev[1]:
                    self.fail("history-repeats-state", "%r then %r" % (prev, h))
            prev = h
        if [list(h) for h in hist] != exp:
            k = 0
            while k < min(len(hist), len(exp)) and list(hist[k]) == exp[k]:
                k += 1
            self.fail("history-ne-state-changes", "entry %d: tracker %r, true timeline %r (lengths %d / %d)" % (
                k, hist[k] if k < len(hist) else None, exp[k] if k < len(exp) else None, len(hist), len(exp)))
        if op[0] == "cap" or len(hist) < 2 or R.S.get("exact"):
            return
        # state probabilities over random windows
        tend = float(op[1]) if op[0] == "time" else float(R.t)
        rng = random.Random(len(hist) * 7919 + int(tend * 1000))
        times = [float(h[0]) for h in hist]
        for _ in range(4):
            a = rng.choice([0.0, rng.uniform(0, tend), rng.choice(times)])
            b = rng.choice([tend, rng.uniform(0, tend), rng.choice(times), rng.choice(times) + 0.5])
            if not (0 <= a < b):
                continue
            try:
                got = tracker.state_probabilities(observation_period=(a, b))
            except Exception as e:
                self.fail("state-probabilities-raised", "window (%r,%r): %s: %s" % (a, b, type(e).__name__, e))
            share = {}
            for k, (t, s) in enumerate(hist):
                t0 = float(t)
                t1 = float(hist[k + 1][0]) if k + 1 < len(hist) else float("inf")
                lo, hi = max(t0, a), min(t1, b)
                if hi > lo:
                    share[s] = share.get(s, 0.0) + (hi - lo) / (b - a)
            tot = sum(got.values())
            if abs(tot - 1) > 1e-9 or any(not (-1e-12 <= v <= 1 + 1e-12) for v in got.values()):
                self.fail("probabilities-not-normalised", "window (%r,%r): %r" % (a, b, got))
            for s in set(share) | set(got):
                if abs(share.get(s, 0.0) - got.get(s, 0.0)) > 1e-9:
                    self.fail("probability-ne-time-share", "window (%r,%r): state %r has share %r, state_probabilities gives %r" % (a, b, s, share.get(s, 0.0), got.get(s, 0.0)))
            R.counts["C17:windows_checked"] += 1
        if not any(float(h[0]) > 0 for h in hist):
            return
        got = tracker.state_probabilities()
        if abs(sum(got.values()) - 1) > 1e-9 or any(not (-1e-12 <= v <= 1 + 1e-12) for v in got.values()):
            self.fail("probabilities-not-normalised", "default window: %r" % (got,))
        known = set(h[1] for h in hist)
        if not set(got) <= known:
            self.fail("probability-for-unvisited-state", "%r" % (set(got) - known,))

    def init_state(self):
        R = self.R
        tr = self.tr
        n = R.S["n"]
        if tr is None:
            return None
        kind = tr["k"]
        if kind == "SystemPopulation":
            return 0
        if kind == "NodePopulation":
            return tuple([0] * n)
        if kind == "NodePopulationSubset":
            return tuple(0 for _ in tr["obs"])
        if kind == "GroupedNodePopulation":
            return tuple(0 for _ in tr["groups"])
        if kind == "NodeClassMatrix":
            return tuple(tuple(0 for _ in R.S["classes"]) for _ in range(n))
        if kind == "NaiveBlocking":
            return tuple((0, 0) for _ in range(n))
        if kind == "MatrixBlocking":
            return (tuple(tuple(() for _ in range(n)) for _ in range(n)), tuple([0] * n))

    def probe(self):
        R = self.R
        R.counts["C17:state_changes"] += self.changes
        R.counts["C17:blockages"] += self.blockages
        if self.tr and self.tr["k"] in ("NaiveBlocking", "MatrixBlocking"):
            return self.changes >= 5 and self.blockages >= 1
        return self.changes >= 5
