"""C01 customer conservation — online, after every B-event, plus a shadow location map
driven only by the S4 micro-events (accept / release / renege)."""
from ..core import Oracle


class C01(Oracle):
    prop = "C01"

    def __init__(self, R):
        Oracle.__init__(self, R)
        self.loc = {}          # shadow: id -> node id | ('transit', dest) | -1
        self.exit_ids = []     # ids seen at the exit, in order
        self.N = 0

    # shadow network ---------------------------------------------------------------------
    def micro(self, ev):
        kind = ev[2]
        if kind == "acc":
            nid, iid = ev[3], ev[4]
            cur = self.loc.get(iid)
            if cur is not None and cur != ("transit", nid):
                self.fail("accept-while-elsewhere", "ind %s accepted at node %s while shadow has it at %r" % (iid, nid, cur))
            self.loc[iid] = nid
        elif kind in ("rel", "ren"):
            nid, dest, iid = ev[3], ev[4], ev[5]
            cur = self.loc.get(iid)
            if cur != nid:
                self.fail("release-from-wrong-place", "ind %s released from node %s while shadow has it at %r" % (iid, nid, cur))
            self.loc[iid] = -1 if dest == -1 else ("transit", dest)

    def after(self, node, nxt):
        R = self.R
        sim = R.sim
        N = sim.nodes[0].number_of_individuals
        if N < self.N:
            self.fail("arrival-counter-decreased", "%s -> %s" % (self.N, N))
        self.N = N
        seen = {}
        tot = 0
        for nd in sim.transitive_nodes:
            inds = R.inds(nd)
            if len(inds) != nd.number_of_individuals:
                self.fail("node-count-mismatch", "node %s holds %d customers but reports %s" % (nd.id_number, len(inds), nd.number_of_individuals))
            tot += len(inds)
            for i in inds:
                iid = i.id_number
                if iid in seen:
                    self.fail("duplicate", "ind %s in node %s and %s" % (iid, seen[iid], nd.id_number))
                seen[iid] = nd.id_number
                if i.node != nd.id_number:
                    self.fail("ind-node-attr", "ind %s is in node %s but says node %r" % (iid, nd.id_number, i.node))
        ex = sim.nodes[-1]
        exl = ex.all_individuals
        if len(exl) != ex.number_of_individuals:
            self.fail("exit-count-mismatch", "%d vs %s" % (len(exl), ex.number_of_individuals))
        k = len(self.exit_ids)
        if len(exl) < k:
            self.fail("exit-shrank", "%d -> %d" % (k, len(exl)))
        for j in range(k):
            if exl[j].id_number != self.exit_ids[j]:
                self.fail("exit-not-append-only", "position %d was %s now %s" % (j, self.exit_ids[j], exl[j].id_number))
        for j in range(k, len(exl)):
            self.exit_ids.append(exl[j].id_number)
        exs = set()
        for i in exl:
            iid = i.id_number
            if iid in seen or iid in exs:
                self.fail("duplicate", "ind %s at exit and elsewhere/twice" % iid)
            exs.add(iid)
        allids = set(seen) | exs
        if len(allids) != N or (N and (min(allids) != 1 or max(allids) != N)):
            miss = sorted(set(range(1, N + 1)) ^ allids)[:6]
            self.fail("ids-not-1..N", "N=%d, symmetric difference %s" % (N, miss))
        if tot + len(exl) != N:
            self.fail("arrivals-ne-nodes-plus-exit", "%d + %d != %d" % (tot, len(exl), N))
        # shadow agreement
        loc = self.loc
        for iid, nid in seen.items():
            if loc.get(iid) != nid:
                self.fail("shadow-mismatch", "ind %s is in node %s, announced transitions put it at %r" % (iid, nid, loc.get(iid)))
        for iid in exs:
            sh = loc.get(iid)
            if sh is not None and sh != -1:
                self.fail("shadow-mismatch", "ind %s is at the exit, announced transitions put it at %r" % (iid, sh))

    def probe(self):
        R = self.R
        transfers = sum(1 for ev in R.log.micro if ev[2] == "rel" and ev[4] != -1)
        R.counts["C01:transfers"] = transfers
        R.counts["C01:exits"] = len(self.exit_ids)
        return transfers >= 1 and len(self.exit_ids) >= 1
