"""C03 journey continuity — history oracle over every customer's records."""
from ..core import Oracle


def isnan(x):
    return x != x


class C03(Oracle):
    prop = "C03"

    def __init__(self, R):
        Oracle.__init__(self, R)
        self.multi = False
        self.rel = {}
        self.ren = {}

    def micro(self, ev):
        if ev[2] == "rel":
            self.rel[ev[5]] = self.rel.get(ev[5], 0) + 1
        elif ev[2] == "ren":
            self.ren[ev[5]] = self.ren.get(ev[5], 0) + 1

    def jockey_dest(self, cls, node):
        rt = self.R.S["routing"].get(cls)
        if rt is not None and rt["k"] == "net" and rt.get("jockey"):
            return rt["jockey"][node - 1]
        return -1

    def check_ind(self, ind, where):
        """where: node id the customer is in now (-1 for the exit)."""
        F = self.fail
        iid = ind.id_number
        recs = ind.data_records
        if len(recs) >= 2:
            self.multi = True
        start = getattr(ind, "starting_node", None)
        if not recs:
            if where == -1:
                F("at-exit-without-record", "ind %s" % iid)
            if where != start:
                F("no-record-but-not-at-starting-node", "ind %s is at node %s, arrived at node %s" % (iid, where, start))
            return
        exp_node = start
        exp_arrival = None        # arrival date the next record must carry (None: unconstrained = first visit)
        in_visit = False          # True after a destination-less interruption record
        visit_arrival = None
        last_int_exit = None
        n_term_move = 0
        n_renege = 0
        final_dest = None
        for k, r in enumerate(recs):
            ty = r.record_type
            if ty in ("baulk", "rejection"):
                if len(recs) != 1:
                    F("refusal-not-only-record", "ind %s has %d records incl. a %s" % (iid, len(recs), ty))
                if r.node != start:
                    F("first-record-not-at-arrival-node", "ind %s arrived at %s, %s record at %s" % (iid, start, ty, r.node))
                if where != -1:
                    F("refused-customer-not-at-exit", "ind %s" % iid)
                return
            if final_dest == -1:
                F("record-after-leaving", "ind %s has record %d after a record with destination -1" % (iid, k))
            if r.node != exp_node:
                F("record-at-wrong-node", "ind %s record %d is at node %s, journey says node %s" % (iid, k, r.node, exp_node))
            if in_visit:
                if r.arrival_date != visit_arrival:
                    F("visit-arrival-date-changed", "ind %s record %d arrival %r, visit began %r" % (iid, k, r.arrival_date, visit_arrival))
                # narrowing: a BLOCKED customer interrupted by a pre-emptive shift end is later released with its
                # original service dates restored (the repo's test_resuming_interruption_after_blockage pins that)
                if ty != "renege" and not (r.service_start_date >= last_int_exit) and "srvpre+blocking" not in self.R.feats:
                    F("restart-before-interruption", "ind %s record %d restarts at %r, interrupted at %r" % (iid, k, r.service_start_date, last_int_exit))
                if not (r.exit_date >= last_int_exit) and "srvpre+blocking" not in self.R.feats:
                    F("records-not-in-order", "ind %s record %d (%s) ends at %r, the interruption before it at %r" % (iid, k, ty, r.exit_date, last_int_exit))
            elif exp_arrival is not None and r.arrival_date != exp_arrival:
                F("gap-between-records", "ind %s record %d begins at %r, previous ended at %r" % (iid, k, r.arrival_date, exp_arrival))
            if ty == "interrupted service" and isnan(r.destination):
                in_visit = True
                visit_arrival = r.arrival_date
                last_int_exit = r.exit_date
                final_dest = None
                continue
            if ty == "service" or ty == "interrupted service":
                dest = r.destination
                n_term_move += 1
            elif ty == "renege":
                dest = self.jockey_dest(r.customer_class, r.node)
                n_renege += 1
            else:
                F("unknown-record-type", "%r" % (r,))
            if isinstance(dest, bool) or not isinstance(dest, int):
                F("bad-destination", "ind %s record %d destination %r" % (iid, k, dest))
            in_visit = False
            exp_node = dest
            exp_arrival = r.exit_date
            final_dest = dest
        # where is the customer now?
        if in_visit:
            if where != exp_node:
                F("mid-visit-customer-elsewhere", "ind %s interrupted at node %s but is at %s" % (iid, exp_node, where))
            if ind.arrival_date != visit_arrival:
                F("mid-visit-arrival-date", "ind %s" % iid)
        else:
            if where != final_dest:
                F("location-ne-last-destination", "ind %s is at %s, last record sends it to %s" % (iid, where, final_dest))
            if where != -1 and ind.arrival_date != exp_arrival:
                F("current-visit-gap", "ind %s entered node %s at %r, previous record ended %r" % (iid, where, ind.arrival_date, exp_arrival))
        if n_term_move != self.rel.get(iid, 0):
            F("service-records-ne-completed-visits", "ind %s has %d service/reroute records, left nodes %d times" % (iid, n_term_move, self.rel.get(iid, 0)))
        if n_renege != self.ren.get(iid, 0):
            F("renege-records-ne-reneges", "ind %s has %d renege records, reneged %d times" % (iid, n_renege, self.ren.get(iid, 0)))

    def segment_end(self, op):
        sim = self.R.sim
        seen = set()
        for nd in sim.transitive_nodes:
            for i in self.R.inds(nd):
                self.check_ind(i, nd.id_number)
                seen.add(i.id_number)
        for i in sim.nodes[-1].all_individuals:
            self.check_ind(i, -1)
            seen.add(i.id_number)
        # every customer that ever moved must be found with its journey (its records say where it is)
        for iid in set(self.rel) | set(self.ren):
            if iid not in seen:
                self.fail("journey-ends-nowhere", "ind %s left a node %d time(s) but is in no node and not at the exit" % (iid, self.rel.get(iid, 0) + self.ren.get(iid, 0)))

    def probe(self):
        return self.multi
