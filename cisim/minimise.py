"""Greedy delta debugging on specs: keep a candidate only if the same clause still fails."""
import copy
import time

from .core import run_spec

INF = float("inf")


def _same(res, prop, clause):
    return res["status"] in ("violation", "crash", "hang") and res["prop"] == prop and res["clause"] == clause


# ---------------------------------------------------------------------------------------
# structural transformations; each returns a new spec or None when not applicable
# ---------------------------------------------------------------------------------------
def drop_class(S, c):
    if len(S["classes"]) <= 1 or c not in S["classes"]:
        return None
    T = copy.deepcopy(S)
    T["classes"] = [x for x in S["classes"] if x != c]
    for key in ("arr", "srv", "batch", "ren", "baulk", "routing"):
        if T.get(key):
            T[key].pop(c, None)
    if all(t is None for x in T["classes"] for t in T["arr"][x]):
        return None
    if T.get("prio"):
        T["prio"].pop(c, None)
        lv = sorted(set(T["prio"].values()))
        T["prio"] = {x: lv.index(p) for x, p in T["prio"].items()}
        if len(lv) <= 1 and not T.get("preempt"):
            T["prio"] = None
    if T.get("ccm"):
        for m in T["ccm"]:
            m.pop(c, None)
            for x, row in m.items():
                lost = row.pop(c, 0.0)
                row[x] = row.get(x, 0.0) + lost
        if len(T["classes"]) < 2:
            T["ccm"] = None
    if T.get("cct"):
        T["cct"].pop(c, None)
        for row in T["cct"].values():
            row.pop(c, None)
        T["cct"] = {x: row for x, row in T["cct"].items() if row} or None
    tr = T.get("tracker")
    if tr and tr.get("order"):
        tr["order"] = [x for x in tr["order"] if x != c]
    return T


def _reidx(d, j):
    """node id d after deleting node j (1-based); j itself -> -1 (exit)."""
    if d == -1:
        return -1
    if d == j:
        return -1
    return d - 1 if d > j else d


def drop_node(S, j):
    n = S["n"]
    if n <= 1:
        return None
    T = copy.deepcopy(S)
    T["n"] = n - 1
    k = j - 1
    for key in ("servers", "ps", "ps_thr", "qcap"):
        del T[key][k]
    for x in T["servers"]:
        if x.get("same_as") is not None:
            if x["same_as"] == k:
                x.pop("same_as")
            elif x["same_as"] > k:
                x["same_as"] -= 1
    for key in ("preempt", "disc", "spf", "ccm"):
        if T.get(key):
            del T[key][k]
    for key in ("arr", "srv", "batch", "ren", "baulk"):
        if T.get(key):
            for c in T[key]:
                del T[key][c][k]
    if all(t is None for c in T["classes"] for t in T["arr"][c]):
        return None
    if T.get("ren") and all(t is None for c in T["classes"] for t in T["ren"][c]):
        T["ren"] = None
    for c, rt in T["routing"].items():
        if rt["k"] == "matrix":
            del rt["M"][k]
            for row in rt["M"]:
                del row[k]
        elif rt["k"] == "net":
            del rt["routers"][k]
            if rt.get("jockey"):
                del rt["jockey"][k]
                rt["jockey"] = [_reidx(d, j) for d in rt["jockey"]]
            new = []
            for x in rt["routers"]:
                if x["k"] == "prob":
                    x = {"k": "prob", "dests": list(range(1, n)), "probs": [p for i, p in enumerate(x["probs"]) if i != k]}
                elif x["k"] == "direct":
                    x = {"k": "leave"} if x["to"] == j else {"k": "direct", "to": _reidx(x["to"], j)}
                elif x["k"] in ("jsq", "lb"):
                    ds = [_reidx(d, j) for d in x["dests"] if d != j]
                    x = dict(x, dests=ds) if ds else {"k": "leave"}
                elif x["k"] == "cycle":
                    x = {"k": "cycle", "cycle": [_reidx(d, j) for d in x["cycle"]]}
                new.append(x)
            rt["routers"] = new
        elif rt["k"] == "pb":
            rt["routes"] = [[_reidx(d, j) for d in route if d != j] for route in rt["routes"]]
        elif rt["k"] == "fpb":
            rt["routes"] = [[s2 for s2 in ([_reidx(d, j) for d in s if d != j] for s in route) if s2] for route in rt["routes"]]
    tr = T.get("tracker")
    if tr:
        if tr.get("obs") is not None:
            tr["obs"] = [(o - 1 if o > k else o) for o in tr["obs"] if o != k]
            if not tr["obs"]:
                T["tracker"] = None
        if tr.get("groups") is not None:
            gs = [[(o - 1 if o > k else o) for o in g if o != k] for g in tr["groups"]]
            tr["groups"] = [g for g in gs if g]
            if not tr["groups"]:
                T["tracker"] = None
    return T


def _set(S, path, value):
    T = copy.deepcopy(S)
    d = T
    for p in path[:-1]:
        d = d[p]
    if d[path[-1]] == value:
        return None
    d[path[-1]] = value
    return T


def simplifications(S):
    """Yield (label, candidate) pairs, coarse to fine."""
    for c in list(S["classes"]):
        yield "drop class " + c, drop_class(S, c)
    for j in range(S["n"], 0, -1):
        yield "drop node %d" % j, drop_node(S, j)
    for key in ("batch", "ren", "baulk", "ccm", "cct", "disc", "spf", "tracker", "exact", "preempt"):
        if S.get(key):
            yield "no " + key, _set(S, [key], None)
    if S.get("detector") and S["plan"][-1][0] != "deadlock":
        yield "no detector", _set(S, ["detector"], None)
    if S.get("prio") and not S.get("preempt"):
        yield "no prio", _set(S, ["prio"], None)
    if S["syscap"] != INF:
        yield "no syscap", _set(S, ["syscap"], INF)
    if len(S["plan"]) > 1:
        yield "unsplit plan", _set(S, ["plan"], [S["plan"][-1]])
        for i in range(len(S["plan"]) - 1):
            yield "drop split %d" % i, _set(S, ["plan"], S["plan"][:i] + S["plan"][i + 1:])
    for i in range(S["n"]):
        if S["qcap"][i] != INF:
            yield "qcap[%d]=inf" % i, _set(S, ["qcap", i], INF)
        if S["ps"][i]:
            yield "ps[%d] off" % i, _set(S, ["ps", i], False)
        s = S["servers"][i]
        if s["k"] != "int" or s["c"] != 1:
            yield "servers[%d]=1" % i, _set(S, ["servers", i], {"k": "int", "c": 1})
        if s["k"] == "sched":
            if s["pre"]:
                yield "sched[%d] non-preemptive" % i, _set(S, ["servers", i, "pre"], False)
            if s["off"]:
                yield "sched[%d] no offset" % i, _set(S, ["servers", i, "off"], 0.0)
            if len(s["cs"]) > 1:
                yield "sched[%d] fewer shifts" % i, _set(S, ["servers", i], dict(s, cs=s["cs"][:-1], ends=s["ends"][:-1]))
        if s["k"] == "slot":
            if s["pre"]:
                yield "slot[%d] non-preemptive" % i, _set(S, ["servers", i, "pre"], False)
            if s["off"]:
                yield "slot[%d] no offset" % i, _set(S, ["servers", i, "off"], 0.0)
            if len(s["slots"]) > 1:
                yield "slot[%d] fewer" % i, _set(S, ["servers", i], dict(s, slots=s["slots"][:-1], sizes=s["sizes"][:-1]))
        if S.get("preempt") and S["preempt"][i]:
            yield "preempt[%d] off" % i, _set(S, ["preempt", i], False)
    for c in S["classes"]:
        rt = S["routing"][c]
        if rt["k"] != "matrix" or any(p for row in rt["M"] for p in row):
            if not (S.get("ccm") or S.get("cct")) or all(x["k"] in ("matrix", "net") for x in S["routing"].values()):
                yield "routing[%s] -> exit" % c, _set(S, ["routing", c], {"k": "matrix", "M": [[0.0] * S["n"] for _ in range(S["n"])]})
        if rt["k"] == "net":
            for i, x in enumerate(rt["routers"]):
                if x["k"] != "leave":
                    yield "router[%s][%d] -> leave" % (c, i), _set(S, ["routing", c, "routers", i], {"k": "leave"})
            if rt.get("jockey"):
                yield "no jockey[%s]" % c, _set(S, ["routing", c, "jockey"], None)
        for i in range(S["n"]):
            if S["arr"][c][i] is not None and sum(1 for cc in S["classes"] for t in S["arr"][cc] if t is not None) > 1:
                yield "no arrivals (%s,%d)" % (c, i + 1), _set(S, ["arr", c, i], None)
            if S.get("ren") and S["ren"][c][i] is not None:
                yield "no reneging (%s,%d)" % (c, i + 1), _set(S, ["ren", c, i], None)
            if S.get("baulk") and S["baulk"][c][i] is not None:
                yield "no baulking (%s,%d)" % (c, i + 1), _set(S, ["baulk", c, i], None)
    d = S["draws"]
    if "vals" not in d:
        if d.get("brate"):
            yield "no boundary draws", _set(S, ["draws", "brate"], 0.0)
        if d.get("policy") != "first":
            yield "policy first", _set(S, ["draws", "policy"], "first")


def _tapes(S):
    """Yield (path, tape) for every tape in the spec."""
    for key in ("arr", "srv", "batch", "ren"):
        if S.get(key):
            for c in S[key]:
                for i, t in enumerate(S[key][c]):
                    if t is not None:
                        yield [key, c, i], t
    if S.get("cct"):
        for c, row in S["cct"].items():
            for d, t in row.items():
                if t is not None:
                    yield ["cct", c, d], t


_KEYMAP = {"arr": "arr", "srv": "srv", "batch": "bat", "ren": "ren"}


def materialise(S, R):
    """Replace PRNG tapes by the explicit values the run consumed (and the draw tape likewise)."""
    T = copy.deepcopy(S)
    for path, t in list(_tapes(T)):
        if "vals" in t:
            continue
        if path[0] == "cct":
            key = ("cct", 0, path[1], path[2])
        else:
            key = (_KEYMAP[path[0]], path[2] + 1, path[1])
        calls = R.log.samples.get(key, [])
        vals = [c[3] for c in calls]
        then = 1 if path[0] == "batch" else 1.0
        d = T
        for p in path[:-1]:
            d = d[p]
        d[path[-1]] = {"vals": vals, "then": then}
    if T.get("draws") is not None and "vals" not in T["draws"]:
        T["draws"] = {"vals": [d[4] for d in R.log.draws], "then": 0.5}
    return T


def shrink_values(S, ok, deadline):
    """After materialisation: truncate lists and simplify single values."""
    cur = S
    changed = True
    while changed and time.time() < deadline:
        changed = False
        for path, t in list(_tapes(cur)):
            vals = t.get("vals")
            if vals is None:
                continue
            # drop tail
            for cut in (len(vals) // 2, len(vals) - 1):
                if 0 <= cut < len(vals):
                    cand = _set(cur, path + ["vals"], vals[:cut])
                    if cand is not None and ok(cand):
                        cur, changed = cand, True
                        vals = vals[:cut]
            for i, v in enumerate(vals):
                if time.time() > deadline:
                    break
                for simple in ((1, 0) if path[0] == "batch" else (1.0, 0.0)):
                    if v != simple and isinstance(v, (int, float)):
                        nv = list(vals)
                        nv[i] = simple
                        cand = _set(cur, path + ["vals"], nv)
                        if cand is not None and ok(cand):
                            cur, changed, vals = cand, True, nv
                            break
        d = cur.get("draws")
        if d is not None and "vals" in d:
            vals = d["vals"]
            for cut in (0, len(vals) // 2):
                if cut < len(vals):
                    cand = _set(cur, ["draws", "vals"], vals[:cut])
                    if cand is not None and ok(cand):
                        cur, changed = cand, True
                        vals = vals[:cut]
            for i, v in enumerate(vals):
                if v != 0.0 and time.time() < deadline:
                    nv = list(vals)
                    nv[i] = 0.0
                    cand = _set(cur, ["draws", "vals"], nv)
                    if cand is not None and ok(cand):
                        cur, changed, vals = cand, True, nv
    return cur


def minimise(S, oracle_classes, prop, clause, budget_s=25.0, log=None, runner=None):
    """Returns (minimised spec, result of its run, number of candidate runs).
    runner: the profile's own run function for differential checks (default: a plain run under the oracles)."""
    deadline = time.time() + budget_s
    runs = [0]
    if runner is None:
        def runner(T):
            return run_spec(T, oracle_classes, wall=10)

    def ok(T):
        runs[0] += 1
        try:
            return _same(runner(T), prop, clause)
        except Exception:
            return False

    cur = S
    res = runner(cur)
    if not _same(res, prop, clause):
        return S, res, 0
    # 1. cut the tail: stop right after the failing step
    if res["phase"] == "run" and res["step"] >= 1:
        cand = _set(cur, ["cap"], res["step"])
        if cand is not None and ok(cand):
            cur = cand
    # 2. structural simplification to a fixpoint
    progress = True
    while progress and time.time() < deadline:
        progress = False
        for label, cand in simplifications(cur):
            if time.time() > deadline:
                break
            if cand is None:
                continue
            if ok(cand):
                cur = cand
                progress = True
                if log:
                    log("  minimise: " + label)
                break
    # 3. explicit tapes, then shrink the values
    full = run_spec(cur, oracle_classes, keep=True)
    if "R" in full and hasattr(full["R"], "B"):
        mat = materialise(cur, full["R"])
        if ok(mat):
            cur = shrink_values(mat, ok, deadline)
    res = runner(cur)
    if _same(res, prop, clause) and res["phase"] == "run":
        cand = _set(cur, ["cap"], res["step"])
        if cand is not None and ok(cand):
            cur = cand
            res = runner(cur)
    return cur, res, runs[0]
