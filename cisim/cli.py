import argparse
import json
import os
import sys
import traceback


def main(argv=None):
    ap = argparse.ArgumentParser(prog="check")
    ap.add_argument("prop", nargs="?")
    ap.add_argument("--tier", default=os.environ.get("VERIF_TIER", "quick"), choices=["quick", "thorough"])
    ap.add_argument("--replay")
    ap.add_argument("--selftest", choices=["determinism", "mutants", "seeded"])
    ap.add_argument("--show", type=int, help="run one index and print the result")
    ap.add_argument("--workers", type=int)
    a = ap.parse_args(argv)
    from .driver import DEFAULT_SEED

    seed = int(os.environ.get("VERIF_SEED", DEFAULT_SEED))
    try:
        if a.selftest:
            from . import selftest
            return selftest.main(a.selftest, seed, a.prop)
        from .profiles import PROFILES
        if a.prop not in PROFILES:
            print("unknown property %r; have %s" % (a.prop, sorted(PROFILES)))
            return 2
        if a.replay:
            from .driver import replay_file
            failed, res, doc = replay_file(a.replay, a.prop)
            print("replay %s: status=%s clause=%s step=%s digest=%s" % (a.replay, res["status"], res.get("clause"), res.get("step"), res.get("digest")))
            if res.get("msg"):
                print(res["msg"][:2000])
            exp = doc.get("expected", {})
            if failed:
                same = (exp.get("step") in (None, res.get("step"))) and (exp.get("digest") in (None, res.get("digest")))
                print("reproduced%s" % ("" if same else " (same clause, different step/digest than recorded: expected step=%s digest=%s)" % (exp.get("step"), exp.get("digest"))))
                print("VIOLATION property=%s replay=%s" % (a.prop, os.path.abspath(a.replay)))
                return 1
            if res["status"] == "harness":
                return 2
            print("not reproduced on this tree")
            return 0
        if a.show is not None:
            from .driver import spec_for
            rs, S = spec_for(a.prop, a.tier, seed, a.show)
            print(json.dumps(S, sort_keys=True))
            res = PROFILES[a.prop].run(S)
            print(json.dumps({k: v for k, v in res.items()}, indent=1, default=str))
            return 0
        from .driver import explore
        return explore(a.prop, a.tier, seed, workers=a.workers)
    except SystemExit:
        raise
    except BaseException:
        traceback.print_exc()
        print("HARNESS-ERROR")
        return 2
