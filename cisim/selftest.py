"""Self-tests: determinism (same seed -> same digests, across worker counts, processes and PYTHONHASHSEED)
and sensitivity (mutants under /verif/mutants and seeded changes under /verif/seeded must be caught)."""
import hashlib
import json
import multiprocessing
import os
import subprocess
import sys
import time
from concurrent.futures import ProcessPoolExecutor

from .driver import HERE, spec_for


def _digests(args):
    prop, tier, seed, idxs = args
    from .profiles import PROFILES
    out = []
    for i in idxs:
        rs, S = spec_for(prop, tier, seed, i)
        res = PROFILES[prop].run(S)
        out.append((i, hashlib.sha256(json.dumps(S, sort_keys=True, default=str).encode()).hexdigest()[:16],
                    res["status"], res.get("clause"), res.get("digest"), res.get("step")))
    return out


def run_batch(prop, seed, idxs, workers):
    ctx = multiprocessing.get_context("fork")
    chunks = [idxs[k::workers] for k in range(workers)]
    with ProcessPoolExecutor(max_workers=workers, mp_context=ctx) as ex:
        parts = list(ex.map(_digests, [(prop, "quick", seed, c) for c in chunks if c]))
    return {r[0]: r[1:] for p in parts for r in p}


def determinism(seed, only=None):
    from .profiles import PROFILES
    props = [only] if only else sorted(PROFILES)
    per = int(os.environ.get("VERIF_SELFTEST_RUNS", 150))
    bad = 0
    t0 = time.time()
    total = 0
    for prop in props:
        idxs = list(range(per if prop != "C15" else max(20, per // 5)))
        a = run_batch(prop, seed, idxs, 16)
        b = run_batch(prop, seed, idxs, 5)
        total += 2 * len(idxs)
        diff = [i for i in idxs if a[i] != b[i]]
        # fresh interpreters under other PYTHONHASHSEED values
        sub = idxs[: max(10, len(idxs) // 8)]
        code = ("import sys, json; sys.path.insert(0, %r); from cisim.selftest import _digests; "
                "print('OUT', json.dumps(_digests((%r, 'quick', %d, %r))))") % (HERE, prop, seed, sub)
        for hs in ("1", "12345", "random"):
            env = dict(os.environ, PYTHONHASHSEED=hs)
            out = subprocess.run([sys.executable, "-B", "-c", code], capture_output=True, text=True, env=env, timeout=900)
            line = [l for l in out.stdout.splitlines() if l.startswith("OUT ")]
            if not line:
                print("determinism: fresh interpreter failed for %s: %s" % (prop, out.stderr[-500:]))
                bad += 1
                continue
            got = {r[0]: tuple(r[1:]) for r in json.loads(line[0][4:])}
            total += len(sub)
            diff += [i for i in sub if tuple(a[i]) != got[i]]
        if diff:
            bad += 1
            i = diff[0]
            print("determinism: %s index %d differs: %r vs %r" % (prop, i, a[i], b[i]))
        else:
            print("determinism: %s ok (%d specs x 2 worker counts + %d x 3 fresh interpreters)" % (prop, len(idxs), len(sub)))
    print("determinism: %d runs compared in %.0fs -> %s" % (total, time.time() - t0, "FAILED" if bad else "all digests agree"))
    return 2 if bad else 0


def mutants(seed, only=None):
    """Apply every diff under mutants/ and seeded/*/patch.diff to a scratch copy and demand exit 1 from the named check."""
    import glob
    import shutil
    import tempfile
    cases = []
    for p in sorted(glob.glob(os.path.join(HERE, "mutants", "*.diff"))):
        prop = os.path.basename(p).split("_")[0].upper()
        cases.append((p, [prop], os.path.basename(p)))
    for d in sorted(glob.glob(os.path.join(HERE, "seeded", "*"))):
        meta = os.path.join(d, "meta.json")
        patch = os.path.join(d, "patch.diff")
        if os.path.exists(meta) and os.path.exists(patch):
            m = json.load(open(meta))
            if m.get("known_gap"):
                print("mutants: %-55s known gap, not run: %s" % ("seeded/" + os.path.basename(d), m.get("missed_reason", "")[:140]))
                continue
            cases.append((patch, m.get("caught_by") or [m["property"]], "seeded/" + os.path.basename(d)))
    def one(case):
        patch, props, name = case
        tmp = tempfile.mkdtemp(prefix="ciwmut.")
        try:
            repo = os.path.join(tmp, "repo")
            os.makedirs(repo)
            files = subprocess.check_output(["git", "-C", os.environ.get("CIW_REPO", "/repo"), "ls-files", "ciw"], text=True).split()
            for f in files:
                dst = os.path.join(repo, f)
                os.makedirs(os.path.dirname(dst), exist_ok=True)
                shutil.copy(os.path.join(os.environ.get("CIW_REPO", "/repo"), f), dst)
            r = subprocess.run(["patch", "-p1", "-s", "-d", repo, "-i", patch], capture_output=True, text=True)
            if r.returncode != 0:
                print("mutants: %s does not apply: %s" % (name, r.stdout[-300:] + r.stderr[-300:]), flush=True)
                return 1
            for prop in props:
                env = dict(os.environ, CIW_REPO=repo, VERIF_OUT=os.path.join(tmp, "out"), VERIF_RUNS=os.environ.get("VERIF_MUTANT_RUNS", "20000"))
                out = subprocess.run([os.path.join(HERE, "check"), prop, "--tier", "quick"], capture_output=True, text=True, env=env, timeout=1800)
                if out.returncode == 1 and "VIOLATION property=%s" % prop in out.stdout:
                    first = [l for l in out.stdout.splitlines() if l.startswith("violation ")]
                    print("mutants: %-55s caught by %s  (%s)" % (name, prop, first[0][:120] if first else ""), flush=True)
                    return 0
            print("mutants: %-55s MISSED by %s" % (name, props), flush=True)
            return 1
        finally:
            shutil.rmtree(tmp, ignore_errors=True)

    todo = [c for c in cases if not (only and only not in c[1])]
    par = int(os.environ.get("VERIF_SELFTEST_PAR", "1"))     # cases run side by side (minimisation and replays are single-threaded)
    if par > 1:
        from concurrent.futures import ThreadPoolExecutor
        with ThreadPoolExecutor(max_workers=par) as ex:
            missed = sum(ex.map(one, todo))
    else:
        missed = sum(one(c) for c in todo)
    print("mutants: %d cases, %d missed" % (len(cases), missed))
    return 1 if missed else 0


def main(which, seed, only=None):
    if which == "determinism":
        return determinism(seed, only)
    return mutants(seed, only)
