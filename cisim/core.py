"""Run one spec against the real engine under the monitors of the requested properties."""
import hashlib
import os
import signal
import traceback
from collections import Counter
from math import isinf

from . import CIW_REPO, import_ciw
from .build import RunLog, DrawTap, build
from .gen import features

ciw = import_ciw()
INF = float("inf")
CIW_DIR = os.path.join(CIW_REPO, "ciw") + os.sep
SIM_DIR = os.path.dirname(os.path.abspath(__file__)) + os.sep


class Violation(Exception):
    def __init__(self, prop, clause, msg=""):
        Exception.__init__(self, "%s.%s: %s" % (prop, clause, msg))
        self.prop, self.clause, self.msg = prop, clause, msg


class StepCap(Exception):
    pass


class OutOfDomain(Exception):
    """The run left the property's stated domain (e.g. a tie in a tie-free profile): discarded, counted."""


class Hang(BaseException):
    pass


def _alarm(signum, frame):
    raise Hang()


class Oracle:
    """Base class: hooks called by the harness.  prop is the property id the clauses belong to."""
    prop = "C00"
    wrap_fifo = False

    def __init__(self, R):
        self.R = R

    def fail(self, clause, msg=""):
        raise Violation(self.prop, clause, msg)

    def check_streams(self):
        """every service-time / class-change-time sample was asked of the stream of the class the customer had at that moment"""
        for key, calls in self.R.log.samples.items():
            if key[0] not in ("srv", "cct"):
                continue
            for c in calls:
                if len(c) > 6 and c[6] is not None and c[6] != key[2]:
                    self.fail("sample-from-wrong-class-stream", "%s stream of node %s class %s was sampled at t=%r for ind %s, whose class was %s" % (
                        key[0], key[1], key[2], c[1], c[2], c[6]))

    def start(self):            # after the Simulation object exists, before the first event
        pass

    def before(self, node):     # before each B-event (clock == R.t)
        pass

    def after(self, node, nxt):  # after each B-event and the engine's own next-event update
        pass

    def micro(self, ev):        # every S4 micro-event, at emission time
        pass

    def segment_end(self, op):  # after each plan operation returned
        pass

    def finish(self):           # after the whole plan
        pass

    def probe(self):            # did this run exercise the property's trigger condition?
        return True


class Hooks:
    def __init__(self, R):
        self.R = R
        self.wrap_fifo = False
        self.decision_cbs = []
        self.baulk_cbs = []

    def on_decision(self, node_id, name, individuals, t, chosen):
        for cb in self.decision_cbs:
            cb(node_id, name, individuals, t, chosen)

    def on_baulk(self, ev):
        for cb in self.baulk_cbs:
            cb(ev)


class Run:
    def __init__(self, S):
        self.S = S
        self.log = RunLog()
        self.counts = Counter()
        self.step = 0
        self.t = 0.0
        self.oracles = []
        self.hooks = Hooks(self)
        self.feats = features(S)
        self.h = hashlib.blake2b(digest_size=16)
        self.sig = hashlib.blake2b(digest_size=8)   # event-order signature
        self.ev_type = None
        self.ev_info = None
        self.seg = 0
        self.clocks = []
        self.nevents = 0
        self.states = set()
        self.prev_t = None
        self.tie_run = 0

    # helpers used by the oracles -------------------------------------------------------
    def nodes(self):
        return self.sim.transitive_nodes

    @staticmethod
    def inds(node):
        return [i for lst in node.individuals for i in lst]

    def kind(self, node):
        """'ps' | 'inf' | 'slot' | 'sched' | 'int' for a service node (from the spec, not the engine)."""
        i = node.id_number - 1
        if self.S["ps"][i]:
            return "ps"
        return self.S["servers"][i]["k"]


def make_sim_class():
    class MonSim(ciw.Simulation):
        def event_and_return_nextnode(self, next_active_node):
            R = self._R
            R.step += 1
            R.log.step = R.step
            if R.step > R.S.get("cap", 4000):
                raise StepCap()
            R.t = self.current_time
            node = next_active_node
            if node is self.nodes[0]:
                R.ev_type = "arrival"
                R.ev_info = (node.next_node, node.next_class)
                nid = 0
            else:
                R.ev_type = node.next_event_type
                R.ev_info = None
                nid = node.id_number
            R.ev_nid = nid
            R.micro_from = len(R.log.micro)
            for o in R.oracles:
                o.before(node)
            nxt = ciw.Simulation.event_and_return_nextnode(self, node)
            R.nevents += 1
            R.counts["ev:" + str(R.ev_type)] += 1
            for o in R.oracles:
                o.after(node, nxt)
            R.h.update(repr((R.step, R.t, nid, R.ev_type, R.log.seq)).encode())
            R.sig.update(("%d%s" % (nid, (R.ev_type or "?")[0])).encode())
            # abstract state vector: per node (population, customers holding a server, blocked customers)
            if len(R.states) < 400:
                st = []
                for nd in self.transitive_nodes:
                    n = b = w = 0
                    for lst in nd.individuals:
                        for i in lst:
                            n += 1
                            if i.is_blocked:
                                b += 1
                            if i.server:
                                w += 1
                    st.append((n, w, b))
                R.states.add(hash(tuple(st)))
            if R.t == R.prev_t:
                R.tie_run += 1
            else:
                if R.tie_run:
                    R.counts["F1:tie_groups_of_%s" % ("2" if R.tie_run == 1 else "3" if R.tie_run == 2 else ">=4")] += 1
                R.tie_run = 0
            R.prev_t = R.t
            return nxt

    return MonSim


MonSim = make_sim_class()


def classify_exception(e):
    """-> ('engine'|'harness', site) by the innermost frame that belongs to ciw/ or to cisim/."""
    tb = traceback.extract_tb(e.__traceback__)
    for fr in reversed(tb):
        fn = os.path.abspath(fr.filename)
        if fn.startswith(CIW_DIR):
            return "engine", "%s@%s" % (type(e).__name__, fr.name)
        if fn.startswith(SIM_DIR):
            return "harness", "%s@%s:%d" % (type(e).__name__, fr.name, fr.lineno)
    return "harness", "%s@?" % type(e).__name__


def fault_counters(R):
    """How often each fault kind actually fired in this run (measured from the history, not from the configuration)."""
    c = R.counts
    log = R.log
    try:
        for key, calls in log.samples.items():
            kind = key[0]
            for call in calls:
                v = call[3]
                if isinstance(v, (int, float)) and not isinstance(v, bool):
                    if v == 0:
                        c["F2:zero_%s_samples" % kind] += 1 if kind != "bat" else 0
                        if kind == "bat":
                            c["F4:empty_batches"] += 1
                    elif v == INF:
                        c["F3:streams_ended"] += 1
        for ev in log.micro:
            k = ev[2]
            if k == "blk":
                c["F7:blockings"] += 1
            elif k == "ren":
                c["F12:reneges"] += 1
            elif k == "baulkq":
                c["F12:baulk_decisions"] += 1
        for d in log.draws:
            if not d[3]:
                c["F1:random_tie_breaks"] += 1
        c["F8:pauses"] += max(0, R.seg - 1)
        if hasattr(R, "sim") and hasattr(R.sim, "nodes"):
            for nd in R.sim.nodes[1:]:
                for i in nd.all_individuals:
                    for r in i.data_records:
                        t = r.record_type
                        if t == "interrupted service":
                            c["F6:interruptions"] += 1
                        elif t == "rejection":
                            c["F12:rejections"] += 1
                        elif t == "baulk":
                            c["F12:baulks"] += 1
                for o in getattr(nd, "overtime", []) if nd is not R.sim.nodes[-1] else []:
                    if o and o > 0:
                        c["F6:overtime_completions"] += 1
    except Exception:
        c["fault_counter_errors"] += 1


def records_of(sim):
    out = []
    for node in sim.nodes[1:]:
        inds = node.all_individuals
        for ind in inds:
            for rec in ind.data_records:
                out.append(rec)
    return out


def run_spec(S, oracle_classes, wall=20, keep=False):
    """Run spec S under the given oracle classes.  Returns a result dict (JSON-able unless keep)."""
    if any(x.get("same_as") is not None for x in S.get("servers", [])):
        from .gen import normalise_shared
        S = dict(S, servers=[dict(x) for x in S["servers"]])
        normalise_shared(S)
    R = Run(S)
    res = {"status": "ok", "prop": None, "clause": None, "msg": "", "step": 0}
    tap = DrawTap(S["draws"], R.log) if S.get("draws") is not None else None
    # Guard that tells a hang from a slow run: a timer ticks every wall/12 seconds of this process's own CPU time (not real
    # time: on a loaded machine a starved worker must never look hung); a HANG is a whole tick without a single B-event
    # completing while the engine is running; a run that keeps progressing is only cut off (as inconclusive, like a step
    # cap) after 48 ticks.
    watch = {"last": -1, "ticks": 0, "phase": "build"}

    def _tick(signum, frame):
        watch["ticks"] += 1
        stuck = R.step == watch["last"] and watch["phase"] == phase_box[0]
        watch["last"] = R.step
        watch["phase"] = phase_box[0]
        if stuck and watch["ticks"] >= 2:
            raise Hang()
        if watch["ticks"] >= 48:
            raise Hang()

    phase_box = ["build"]
    old = signal.signal(signal.SIGPROF, _tick)
    signal.setitimer(signal.ITIMER_PROF, wall / 12.0, wall / 12.0)
    phase = "build"
    try:
        try:
            R.oracles = [oc(R) for oc in oracle_classes]
            for o in R.oracles:
                if type(o).micro is not Oracle.micro:
                    R.log.observers.append(o.micro)
                if o.wrap_fifo:
                    R.hooks.wrap_fifo = True
            if tap is not None:
                tap.install()
            R.tap = tap
            try:
                R.B = build(S, R.log, R.hooks)
            except Exception as e:
                res.update(status="badspec", msg="%s: %s" % (type(e).__name__, e))
                return res
            phase = phase_box[0] = "init"
            sim = MonSim.__new__(MonSim)
            sim._R = R
            R.sim = sim
            MonSim.__init__(sim, R.B.network, **R.B.simkw)
            for o in R.oracles:
                o.start()
            phase = phase_box[0] = "run"
            counted = False
            for op in S["plan"]:
                if op[0] == "cust" and len(op) > 3 and op[3] == "more":
                    # the caller asks for n MORE customers than the run has counted so far (a count already reached is outside C14's statement)
                    have = {"Arrive": sim.nodes[0].number_of_individuals, "Accept": sim.nodes[0].number_accepted_individuals,
                            "Finish": sim.nodes[-1].number_of_individuals, "Complete": sim.nodes[-1].number_of_completed_individuals}[op[2]]
                    op = ["cust", have + op[1], op[2]]
                    counted = True
                if op[0] == "time" and counted and R.t is not None and not (R.t < op[1]):
                    # a horizon that the clock has already passed (the count ran further) is a caller error, not a run
                    R.counts["F8:horizon_already_passed_skipped"] += 1
                    R.seg += 1
                    continue
                R.op = op
                if op[0] == "time":
                    sim.simulate_until_max_time(op[1])
                elif op[0] == "cust":
                    sim.simulate_until_max_customers(op[1], method=op[2])
                elif op[0] == "deadlock":
                    sim.simulate_until_deadlock()
                elif op[0] == "peek":
                    # the caller inspects results while the run is paused (read-only API): nothing may change
                    sim.get_all_records()
                    sim.get_all_individuals()
                    R.counts["F8:results_read_mid_run"] += 1
                    R.seg += 1
                    continue
                elif op[0] == "spawn":
                    # F9 mid-run: while this simulation is paused, the caller builds another Simulation from the same
                    # Network object (and never runs it).  Nothing about the paused simulation may change.
                    tr = type(R.B.tracker).__mro__[1]
                    targs = ()
                    t_ = S.get("tracker")
                    if t_ and t_["k"] == "NodePopulationSubset":
                        targs = (list(t_["obs"]),)
                    elif t_ and t_["k"] == "GroupedNodePopulation":
                        targs = ([list(g) for g in t_["groups"]],)
                    kw2 = {k2: v2 for k2, v2 in R.B.simkw.items() if k2 not in ("tracker", "deadlock_detector")}
                    before_draws = len(R.log.draws)
                    ciw.Simulation(R.B.network, tracker=tr(*targs), **kw2)
                    R.counts["F9:second_simulation_built_mid_run"] += 1
                    R.seg += 1
                    continue
                else:
                    raise RuntimeError("unknown plan op %r" % (op,))
                R.seg += 1
                phase = phase_box[0] = "segment_end"
                for o in R.oracles:
                    o.segment_end(op)
                phase = phase_box[0] = "run"
            phase = phase_box[0] = "finish"
            for o in R.oracles:
                o.finish()
        finally:
            signal.setitimer(signal.ITIMER_PROF, 0)
            if tap is not None and hasattr(tap, "_saved"):
                tap.uninstall()
    except Violation as v:
        res.update(status="violation", prop=v.prop, clause=v.clause, msg=v.msg)
    except StepCap:
        res.update(status="cap")
        # the cap is hit between two events: the state is consistent, so history oracles still apply
        try:
            for o in R.oracles:
                o.segment_end(("cap",))
        except Violation as v:
            res.update(status="violation", prop=v.prop, clause=v.clause, msg=v.msg)
        except Exception as e:
            who, site = classify_exception(e)
            res.update(status="harness", clause=site,
                       msg="".join(traceback.format_exception(type(e), e, e.__traceback__))[-3000:])
    except OutOfDomain as e:
        res.update(status="discard", msg=str(e))
    except Hang:
        stuck_in_engine = phase in ("init", "run") and watch["ticks"] < 48
        if stuck_in_engine:
            res.update(status="hang", prop="C14", clause="hang@" + phase,
                       msg="no event completed within %.0f s of CPU time (phase %s, step %d)" % (wall / 12.0, phase, R.step))
        else:
            res.update(status="cap", msg="slow run cut off by the wall guard in phase %s after %d ticks" % (phase, watch["ticks"]))
            R.counts["wall_guard_cutoffs"] += 1
    except Exception as e:
        who, site = classify_exception(e)
        if who == "engine" and phase in ("init", "run"):
            res.update(status="crash", prop="C14", clause="crash:" + site,
                       msg="%s: %s" % (type(e).__name__, str(e)[:200]))
        else:
            res.update(status="harness", clause=site,
                       msg="".join(traceback.format_exception(type(e), e, e.__traceback__))[-3000:])
    finally:
        signal.signal(signal.SIGPROF, old)
    f5 = S.get("f5")
    if f5 is not None and phase != "build" and hasattr(R, "B"):
        # F5: one invalid sample was planted; if it was served, the run must have ended with an error at that draw
        d = R.B.dists.get(tuple(f5["key"]))
        served = d is not None and d.i > f5["i"] and (d.calls[f5["i"]][3] == f5["v"] or (d.calls[f5["i"]][3] != d.calls[f5["i"]][3] and f5["v"] != f5["v"]))
        R.counts["F5:planted"] += 1
        if served:
            R.counts["F5:served"] += 1
            if res["status"] == "crash" and d.i == f5["i"] + 1 and d.calls[-1][5] == R.step:
                res.update(status="ok", prop=None, clause=None, msg="", f5="raised:" + res["clause"])
                R.counts["F5:raised"] += 1
            elif res["status"] in ("ok", "cap", "crash"):
                res.update(status="violation", prop="C10", clause="invalid-sample-accepted:" + f5["key"][0],
                           msg="stream %r returned %r at draw %d and the run went on (status %s %s)" % (f5["key"], f5["v"], f5["i"], res["status"], res.get("clause")))
    if res["status"] in ("ok", "cap"):
        try:
            res["probe"] = all(o.probe() for o in R.oracles)
        except Exception as e:
            res["probe"] = False
            res["probe_error"] = repr(e)
    fault_counters(R)
    res["states"] = list(R.states)
    res["step"] = R.step
    res["phase"] = phase
    res["events"] = R.nevents
    res["simtime"] = float(R.t) if R.nevents else 0.0
    res["counts"] = dict(R.counts)
    res["feats"] = sorted(R.feats)
    res["sig"] = R.sig.hexdigest()
    if tap is not None:
        res["counts"]["F10:boundary_draws"] = tap.injected
    # history digest: events + micro-events + samples + draws + records
    h = R.h
    try:
        h.update(repr(R.log.micro).encode())
        h.update(repr(sorted((k, v) for k, v in R.log.samples.items())).encode())
        h.update(repr(R.log.draws).encode())
        if hasattr(R, "sim") and hasattr(R.sim, "nodes"):
            h.update(repr([tuple(r) for r in records_of(R.sim)]).encode())
    except Exception as e:  # corrupted engine state: digest what we have
        h.update(("digest-error:%s" % type(e).__name__).encode())
    res["digest"] = h.hexdigest()
    if keep:
        res["R"] = R
    return res
