"""Debug helper: run a spec/replay and print the event trace (not used by the checks)."""
import json
import sys
import traceback

from .core import Oracle, run_spec


class Trace(Oracle):
    prop = "TRACE"

    def before(self, node):
        R = self.R
        print("--- step %d t=%r node=%s type=%s info=%s" % (R.step, R.t, R.ev_nid, R.ev_type, R.ev_info))

    def micro(self, ev):
        print("      micro", ev[2:])

    def after(self, node, nxt):
        R = self.R
        for nd in R.sim.transitive_nodes:
            desc = []
            for i in R.inds(nd):
                s = i.server
                sid = getattr(s, "id_number", s)
                desc.append("%d[c=%s p=%s srv=%s%s%s st=%r end=%r]" % (i.id_number, i.customer_class, i.priority_class, sid,
                            " B->%s" % i.destination if i.is_blocked else "", " INT" if i.interrupted else "",
                            i.service_start_date, i.service_end_date))
            srv = ""
            if hasattr(nd, "servers"):
                srv = " servers=" + ",".join("%d%s%s" % (s.id_number, "*" if s.busy else "", "off" if s.offduty else "") for s in nd.servers)
            print("      node %d c=%s next=%s@%r%s bq=%s: %s" % (nd.id_number, nd.c, nd.next_event_type, nd.next_event_date, srv, nd.blocked_queue, " ".join(desc)))


def main(path, props=None):
    from .profiles import PROFILES
    doc = json.load(open(path))
    S = doc["spec"] if "spec" in doc else doc
    prop = props or doc.get("property")
    ocs = [Trace] + list(PROFILES[prop].oracles)
    res = run_spec(S, ocs, keep=True)
    R = res.pop("R")
    print(json.dumps({k: v for k, v in res.items() if k not in ("counts", "feats")}, indent=1, default=str))
    for nd in R.sim.nodes[1:]:
        for i in nd.all_individuals:
            for r in i.data_records:
                print(tuple(r))


if __name__ == "__main__":
    main(sys.argv[1], sys.argv[2] if len(sys.argv) > 2 else None)
