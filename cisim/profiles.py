"""Per-property exploration profiles: generator settings, oracle classes, budgets, evidence texts."""
from .gen import profile, WIDE, INF
from .core import run_spec

COMPONENTS = {
    "real_code": ["everything under ciw/ (Simulation event loop, Node, ArrivalNode, ExitNode, PSNode, ExactNode, "
                  "Schedule/Slotted, routing objects, trackers, deadlock detector, disciplines, create_network)"],
    "stubs_environment": ["distributions (TapeDist: seeded sample tapes)", "process-based route functions",
                          "baulking functions (tables)", "server priority functions",
                          "random draws of ciw.auxiliary / ciw.arrival_node (DrawTap: seeded, tie-break policies, boundary injection)"],
    "real_code_wrapped_by_loggers": ["state trackers (TapTracker subclass)", "deadlock detector (TapDetector subclass)",
                                     "service disciplines FIFO/LIFO/SIRO (logging wrapper)"],
}

BASE_ASSUMPTIONS = [
    "sampling, not proof: networks of <= 4 nodes, <= 3 classes, bounded horizons",
    "oracles read engine attributes named in the property anchors (node.individuals, servers, blocked_queue, ...)",
    "engine code runs unmodified from $CIW_REPO (default /repo); environment is the seeded simulator",
]


class Profile:
    def __init__(self, prop, oracles, variants, rule, budget, post=None, assumptions=(), wall=60, runner=None,
                 gen=None, features=None, minimiser=None):
        self.prop = prop
        self.oracles = oracles
        self.variants = variants      # list of (weight, profile dict)
        self.rule = rule
        self.budget = budget
        self.post = post
        self.assumptions = BASE_ASSUMPTIONS + list(assumptions)
        self.components = COMPONENTS
        self.wall = wall
        self.runner = runner
        self.gen = gen
        self.features_fn = features
        self.minimiser = minimiser

    def features(self, S):
        from .gen import features
        return self.features_fn(S) if self.features_fn else features(S)

    def minimise(self, S, clause, budget_s):
        from .minimise import minimise
        if self.minimiser is not None:
            return self.minimiser(S, self.run, self.prop, clause, budget_s)
        return minimise(S, self.oracles, self.prop, clause, budget_s=budget_s, runner=self.run)

    def pick(self, r, tier):
        tot = sum(w for w, _ in self.variants)
        x = r.random() * tot
        for w, P in self.variants:
            x -= w
            if x < 0:
                break
        if tier == "thorough":
            # deeper: longer horizons, larger networks (one more node / class than the quick tier ever uses), more pauses
            P = dict(P)
            P["horizon"] = [h * 3 for h in P["horizon"]] + list(P["horizon"])
            P["stepcap"] = P["stepcap"] * 3
            if not P.get("_meta") and max(P["n"]) < 5:
                P["n"] = list(P["n"]) + [max(P["n"]) + 1]
            if max(P["k"]) < 4:
                P["k"] = list(P["k"]) + [max(P["k"]) + 1]
            if P.get("splits"):
                P["splits"] = P["splits"] + 2
        return P

    def run(self, S):
        if self.runner is not None:
            return self.runner(S, self.oracles, wall=self.wall)
        return run_spec(S, self.oracles, wall=self.wall)


def B(qr, tr, qw=45, tw=780, **kw):
    d = {"quick": {"runs": qr, "wall": qw}, "thorough": {"runs": tr, "wall": tw}}
    for t in d.values():
        t.update(kw)
    return d


def plant_bad_sample(S, r, tier):
    """F5: in the f_bad sub-profile plant exactly one invalid value on one arrival / service / batch stream."""
    if not S.pop("_f_bad", False):
        return S
    cands = []
    for kind, key in (("arr", "arr"), ("srv", "srv"), ("bat", "batch")):
        if S.get(key):
            for c in S[key]:
                for i, t in enumerate(S[key][c]):
                    if t is not None:
                        cands.append((kind, key, c, i))
    kind, key, c, i = r.choice(cands)
    if kind == "bat":
        v = r.choice([-1, 2.5, None, "x", float("nan")])
    else:
        v = r.choice([-1.0, -0.25, float("nan"), None, "x"])
    idx = r.randint(0, 4)
    S[key][c][i]["bad_at"] = {"i": idx, "v": v}
    S["f5"] = {"key": [kind, i + 1, c], "i": idx, "v": v}
    return S


def meta_ps(S, r, tier):
    """metamorphic sub-profile of C19: one unlimited PS node, threshold 1, continuous tapes, everybody leaves"""
    if not S.pop("_meta", False):
        return S
    from .gen import mk_tape
    S["n"] = 1
    S["mode"] = "cont"
    S["ps"], S["ps_thr"], S["servers"], S["qcap"] = [True], [1], [{"k": "inf"}], [INF]
    for key in ("preempt", "disc", "spf", "ccm", "baulk", "batch", "ren", "cct", "tracker", "detector"):
        S[key] = None
    for c in S["classes"]:
        S["arr"][c] = [mk_tape(r, "cont", zero=False)]
        S["srv"][c] = [mk_tape(r, "cont", r.choice([0.5, 1, 2]), zero=False)]
        S["routing"][c] = {"k": "matrix", "M": [[0.0]]}
    S["plan"] = [["time", float(r.choice([10, 25]))]]
    S["meta_ps"] = True
    return S


def force_split(S, r, tier):
    """C16: every run has at least one split point; some lie before the first event or exactly on an event-free instant"""
    T = S["plan"][-1][1]
    if len(S["plan"]) < 2:
        cuts = sorted(set(round(r.uniform(0, T), 4) for _ in range(r.randint(1, 4))))
        cuts = [c for c in cuts if 0 < c < T]
        if r.random() < 0.15:
            cuts = [min(cuts + [T / 2]) / 1000.0] + cuts
        if r.random() < 0.1 and cuts:
            cuts = sorted(cuts + [cuts[0]])      # the same horizon asked twice
        S["plan"] = []
        for c in cuts:
            S["plan"].append(["time", c])
            if r.random() < 0.3:
                S["plan"].append(["spawn"])      # another Simulation is built from the same Network while this one is paused
        S["plan"].append(["time", T])
    return S


def keep_cont(S, r, tier):
    """C20 continuous sub-profile: gen_spec turns continuous tapes into decimal ones when exact is on; undo that"""
    if S.pop("_cont", False) and S.get("exact"):
        from .gen import mk_tape
        S["mode"] = "cont"
        S["exact"] = r.choice([20, 26, 30])
        for key in ("arr", "srv", "ren"):
            if S.get(key):
                for c in S[key]:
                    S[key][c] = [None if t is None else mk_tape(r, "cont", zero=False) for t in S[key][c]]
        for s_ in S["servers"]:
            if s_["k"] == "sched":
                s_["cs"] = [max(1, c) for c in s_["cs"]]
    return S


PROFILES = {}
_COMMON = (" Seeded exploration (deterministic simulation with fault injection): the real engine is run on tens of thousands of generated "
           "networks, sample tapes, tie-break schedules and pause/re-use plans per batch; clauses are evaluated after every executed event "
           "and over the recorded history; a failure is minimised to a replay file that reproduces it exactly. A clean batch is evidence, not proof.")
LEVEL_TEXT = {
    "*": "Per-event invariants and history oracles." + _COMMON,
    "C01": "After every event: each id 1..N in exactly one node list or the exit, counters equal lists, exit append-only, and a shadow location map "
           "driven only by accept/release/renege micro-events agrees; reference-model refinement on the tie-free core." + _COMMON,
    "C02": "Before every event clock == event date and clock non-decreasing; after every event no node/stream/renege/class-change date in the past; "
           "every record checked for its ordering and exact arithmetic as it is written." + _COMMON,
    "C03": "Every customer's records parsed as a journey grammar (visits = interruptions* + one terminal record; node/arrival-date chaining; "
           "location = last destination; records of a visit in time order; records vs announced departures); reference-model refinement." + _COMMON,
    "C04": "Server/customer bijection, on-duty count == c, no attach to a busy server (shadow occupancy from attach/detach), server stays until its "
           "customer leaves or is interrupted, per-server record intervals disjoint, utilisation recomputed from attach/detach times (also across pauses, also in exact arithmetic)." + _COMMON,
    "C05": "After every event no on-duty server idle while a customer waits or is interrupted (all capacity/demand changes happen inside events); a "
           "service started in an event carries that instant as its start date; "
           "reference-model refinement of every service start date." + _COMMON,
    "C06": "Population bounds after every event and a sequential admission oracle for every arrival event (batch members one by one: rejected iff "
           "node or system full at its turn, record shows the population seen); reference-model refinement." + _COMMON,
    "C07": "At the instant of every blocking/unblocking micro-event: blocked only if destination full, released in the harness's own FIFO order of "
           "blocking (cascades included), never left blocked with space, holds its server, time_blocked == span block->release; reference-model refinement." + _COMMON,
    "C08": "At the instant of every discipline decision (public seam): chosen customer waits, belongs to the best priority line, and is first/last "
           "of the harness's own per-priority shadow line (FIFO/LIFO), slotted nodes included; every service start justified by a decision; reference-model refinement." + _COMMON,
    "C09": "Every transition checked against the routing spec of the customer's class (probability > 0, Direct/Leave/Cycle exact, JSQ/LB minimal on the "
           "pre-event state, process routes in order; pre-emptive reroutes are transitions too), class changes against the matrix, priority line == class priority; boundary draws injected; reference model." + _COMMON,
    "C10": "Tape audit: arrivals exactly at the running sums of the stream's samples, batch sizes honoured, every service end == start + its sample "
           "(draws consumed in order, none unused), no due arrival skipped; F5: a planted invalid sample must raise at that draw; reference model." + _COMMON,
    "C11": "No priority inversion after every event; victim rule at the instant of every pre-emption; resume/restart/resample bookkeeping by a "
           "sequential walk over each customer's records consuming its service-time draws." + _COMMON,
    "C12": "Independent cyclic timetable function: on-duty count after every event, shift/slot events exactly at timetable dates and none missed, "
           "no start on off-duty servers, overtime and interruption rules at every shift end, interrupted-before-fresh restart order, slot sizes." + _COMMON,
    "C13": "Patience tracked per visit: renege exactly at arrival + patience, only while waiting and never after service started, nobody waits beyond "
           "patience, jockey destination; baulking function gets the true population and the outcome equals (draw < p) incl. boundary draws." + _COMMON,
    "C14": "No engine exception/hang on any generated valid network; at return every due event executed and none at/after the horizon; count methods "
           "recomputed independently." + _COMMON,
    "C15": "Operation histories over Ciw's own seeding (real ciw.seed, real distributions): prelude of other simulations, then repeat / re-use Network / "
           "two interleaved simulations / fresh interpreter under another PYTHONHASHSEED; digests of records, clock and tracker history must agree." + _COMMON,
    "C16": "Differential: the same spec run in one call and split at 1-5 points (with other Simulations built from the same Network in between); "
           "records and clock bit-identical, server statistics equal to 1e-9; tie runs discarded as out of domain." + _COMMON,
    "C17": "After every event hash_state() == state recomputed from the configuration (all seven trackers, MatrixBlocking from the harness's own "
           "blocking order); history == compressed true timeline; state_probabilities over random windows == exact time shares." + _COMMON,
    "C18": "Independent greatest-fixed-point deadlock oracle after every event of simulate_until_deadlock: sound (true at return), complete (never true "
           "before another event is executed), times_to_deadlock recomputed exactly." + _COMMON,
    "C19": "Sharers == FCFS prefix of min(population, capacity) after every event; work integral of min(1, R/k) over the harness's own population "
           "timeline == sampled requirement for every completed service; metamorphic PS(inf,R=1) vs FIFO/1 emptying instants." + _COMMON,
    "C20": "Every record field a Decimal; dates == exact rational sums of samples / timetable dates (3-decimal lattice); exact run vs floating-point twin "
           "within 10^-(k-3) on tie-free tapes; dirty decimal context from earlier runs in the process." + _COMMON,
}


def register(p):
    PROFILES[p.prop] = p


def _load():
    from .oracles.c01 import C01
    from .oracles.c02 import C02
    from .oracles.c14 import C14
    from .oracles.c04 import C04, C05
    from .oracles.c06 import C06, C07
    from .oracles.c03 import C03
    from .oracles.c08 import C08
    from .oracles.c09 import C09
    from .oracles.c10 import C10
    from .oracles.c11 import C11
    from .oracles.c12 import C12
    from .oracles.c13 import C13
    from .oracles.c17 import C17
    from .oracles.c18 import C18
    from .oracles.c19 import C19, run_c19
    from .oracles.c16 import C16, run_c16
    from . import c15
    from .oracles.c20 import C20, run_c20
    from .refsim import Ref

    wide = profile()
    # core domain of the executable reference model (cisim/refsim.py): trace refinement, ties and zero-length timers included
    core = profile(time={"lat": 0.6, "cont": 0.4}, ordinary_only=True, sched=0.0, slot=0.0, ps=0.0, zero=0.0, inf=0.1, exact=0.0, preempt=0.0, cct=0.0, spf=0.0,
                   f_zero=0.5, tdep=0.2, plan={"time": 0.8, "cust": 0.2}, splits=1, qcap=0.6, syscap=0.2, batch=0.3, baulk=0.3, renege=0.35, jockey=0.4,
                   ccm=0.3, prio=0.5, disc=0.4, route_kinds={"matrix": 0.4, "net": 0.45, "pb": 0.15, "fpb": 0.0},
                   policies=["uniform"], horizon=[8.0, 15.0, 30.0], disc_opts=["FIFO", "LIFO", "SIRO"], jsq_tb=["order"])
    NO_KFA = ("KF-B", "KF-C", "KF-D", "KF-E")     # explore the region of the open finding KF-A (pre-emptive shift end / slot x blocking)
    kfa = profile(rules=NO_KFA, sched=0.6, qcap=0.9, qcap_vals=[INF, 0, 0, 1, 2], n=[2, 2, 3], exact=0.0, ps=0.0,
                  sched_pre_opts=["resume", "restart", "resample", "reroute"], slot=0.15)
    faulty = profile(f_zero=0.8, f_infarr=0.3, f_batch0=0.8, qcap=0.7, sched=0.35, renege=0.4, batch=0.4)
    # C01's own clauses hold on the unchanged tree inside the regions of the open findings too (an engine crash there is
    # C14's matter), so C01 explores them: a third of its runs are generated without any sanitising
    # a custom service discipline that lets customers linger beside a free server (valid use of the documented hook): waiting
    # customers exist while servers are free, which the built-in disciplines never produce
    LINGER = dict(disc=0.6, disc_opts=["FIFO", "LIFO", "SIRO", "LINGER", "LINGER"])
    register(Profile("C01", [C01, Ref], [(2, core), (4, wide), (2, faulty), (2, dict(faulty, rules=(), jockey=0.6, sched=0.4, qcap=0.8)), (1, dict(wide, **LINGER))],
                     "runs generated swarm-style from sub(VERIF_SEED,'C01',tier,i); distinct = distinct history digest "
                     "(events+micro-events+samples+draws+records); non-trivial = >=1 transfer between service nodes and >=1 exit",
                     B(40000, 500000)))
    # pre-emptive priorities where customers also renege: a victim goes back to waiting and its dates must be re-armed correctly
    pre_ren = profile(prio=1.0, preempt=1.0, preempt_opts=["resume", "restart", "resample"], renege=0.9, cct=0.25, k=[3, 3, 2], n=[1, 1, 2],
                      sched=0.1, qcap=0.15, slot=0.0, ps=0.0, inf=0.0, zero=0.0)
    register(Profile("C02", [C02], [(4, wide), (2, faulty), (1, dict(wide, renege=0.7, **LINGER)), (1, pre_ren)],
                     "distinct history digest; non-trivial = >=1 tie (two consecutive events at one date) and records of >=2 types",
                     B(40000, 500000)))
    register(Profile("C14", [C14], [(2, wide), (1, faulty), (1, dict(wide, np_samples=0.5, exact=0.0)), (1, profile(plan={"time": 0.4, "cust": 0.6, "deadlock": 0.0})),
                                     (1, dict(wide, **LINGER))],
                     "distinct history digest; non-trivial = >=2 optional features enabled and >=10 events executed",
                     B(60000, 800000)))


    NOREROUTE = dict(preempt_opts=[False, "resume", "restart", "resample"],
                     sched_pre_opts=[False, False, "resume", "restart", "resample"])
    register(Profile("C03", [C03, Ref], [(2, core), (4, wide), (2, faulty), (2, profile(prio=0.8, preempt=0.8, sched=0.4, renege=0.5, jockey=0.6, qcap=0.6)), (2, kfa),
                                         (1, dict(wide, **LINGER))],
                     "distinct history digest; non-trivial = >=1 customer with >=2 records",
                     B(40000, 500000)))
    NOREROUTE = dict(preempt_opts=[False, "resume", "restart", "resample"],
                     sched_pre_opts=[False, False, "resume", "restart", "resample"])
    srv = profile(ordinary_only=True, inf=0.0, zero=0.0, sched=0.35, qcap=0.6, renege=0.3, n=[1, 2, 2, 3], ps=0.0, slot=0.0)
    register(Profile("C04", [C04], [(4, srv), (2, profile(ordinary_only=True, inf=0.0, sched=0.5, preempt=0.0, qcap=0.7,
                                                          sched_pre_opts=[False], n=[1, 2, 3], splits=3, plan={"time": 1.0})),
                                    (1, dict(srv, **LINGER))],
                     "distinct history digest; non-trivial = some server served >=2 customers and some customer was blocked while holding its server",
                     B(40000, 400000)))
    register(Profile("C05", [C05, Ref], [(1, core), (2, srv), (1, profile(ordinary_only=True, sched=0.5, prio=0.8, preempt=0.7, renege=0.5, cct=0.3, n=[1, 2, 3])),
                                    (1, dict(kfa, ordinary_only=True, slot=0.0))],
                     "distinct history digest; non-trivial = >=1 customer waited and later started service",
                     B(40000, 400000)))
    order = profile(ordinary_only=True, k=[2, 2, 3], prio=0.85, preempt=0.4, disc=0.8, sched=0.25, sched_pre_opts=[False], ccm=0.3, cct=0.15,
                    qcap=0.4, batch=0.4, renege=0.2, inf=0.05, slot=0.0, ps=0.0, n=[1, 1, 2, 3])
    # slotted nodes (capacitated and pre-emptive ones included): the discipline picks who fills each slot
    order_slot = dict(order, ordinary_only=False, sched=0.0, slot=0.7, preempt=0.0, ps=0.0, exact=0.0, prio=0.5, horizon=[12.0, 30.0])
    register(Profile("C08", [C08, Ref], [(3, core), (3, order), (1, order_slot)],
                     "distinct history digest; non-trivial = >=1 discipline decision among >=2 waiting customers of >=2 classes",
                     B(40000, 400000)))
    rout = profile(n=[2, 2, 3, 4], route_kinds={"matrix": 0.25, "net": 0.45, "pb": 0.15, "fpb": 0.15}, ccm=0.4, cct=0.1, qcap=0.3,
                   jockey=0.0, ps=0.05, slot=0.05)      # pre-emptive reroutes are transitions too (checked like any other)
    rout_b = dict(rout, f_boundary=0.05)
    register(Profile("C09", [C09, Ref], [(2, core), (4, rout), (2, rout_b), (1, dict(rout, **LINGER))],
                     "distinct history digest; non-trivial = >=1 routing decision checked (per-router-kind and unequal-queue JSQ/LB decision counters reported)",
                     B(40000, 400000)))
    samp = profile(preempt=0.0, sched_pre_opts=[False], np_samples=0.15, sdep=0.3, tdep=0.5, batch=0.5, exact=0.15, n=[1, 2, 2, 3], slot=0.1, ps=0.05)
    register(Profile("C10", [C10, Ref], [(2, core), (6, samp), (2, dict(samp, f_bad=1.0)), (2, dict(kfa, tdep=0.5, batch=0.5)),
                                         (1, dict(samp, k=[2, 2, 3], disc=0.8, disc_opts=["FIFO", "LINGER", "LINGER"]))],
                     "distinct history digest; non-trivial = >=3 arrivals on one stream and >=1 completed service audited against its sample "
                     "(F5 sub-profile: one invalid sample planted per run; counters F5:planted/served/raised reported)",
                     B(40000, 400000), post=plant_bad_sample))
    pre = profile(ordinary_only=True, n=[1, 1, 2], k=[2, 3, 3], prio=1.0, preempt=1.0, sched=0.0, inf=0.0, zero=0.0, slot=0.0, ps=0.0,
                  qcap=0.0, syscap=0.0, renege=0.0, batch=0.4, cct=0.2, ccm=0.2, exact=0.0, jockey=0.0,
                  preempt_opts=["resume", "restart", "resample", "reroute", "resume", "restart", "resample", False])
    # ... also where customers get blocked (a blocked customer keeps its server and is never the victim), renege, and in exact arithmetic
    pre_wide = dict(pre, qcap=0.4, renege=0.3, syscap=0.2, exact=0.15, inf=0.1)
    register(Profile("C11", [C11], [(2, pre), (1, pre_wide)],
                     "distinct history digest; non-trivial = >=1 pre-emption (probe: the same customer pre-empted twice)",
                     B(40000, 400000)))
    tt = profile(n=[1, 1, 2], k=[1, 2], sched=0.75, slot=0.25, inf=0.0, zero=0.0, ps=0.0, preempt=0.0, prio=0.5, qcap=0.0, syscap=0.0,
                 exact=0.0, renege=0.15, jockey=0.0, batch=0.3, ccm=0.1, cct=0.0, horizon=[12.0, 30.0, 40.0],
                 sched_pre_opts=[False, False, "resume", "restart", "resample", "reroute"])
    tt["slot"] = 0.9     # slot is tried only where sched was not drawn
    tt_blk = dict(tt, qcap=0.8, qcap_vals=[INF, 0, 1, 2], n=[2, 2, 3], sched_pre_opts=[False], slot=0.0)   # overtime servers holding blocked customers
    tt_slotblk = dict(tt, sched=0.0, slot=1.0, qcap=0.8, qcap_vals=[INF, 0, 1, 2], n=[2, 2, 3])   # slotted nodes whose customers get blocked downstream
    tt_exact = dict(tt, exact=0.7)      # ExactNode's own shift-change / slot code
    register(Profile("C12", [C12], [(4, tt), (1, tt_blk), (1, tt_slotblk), (1, tt_exact)],
                     "distinct history digest; non-trivial = >=1 shift end with a service in flight or >=1 slot with more customers waiting than its size",
                     B(30000, 300000)))
    pat = profile(renege=0.8, jockey=0.5, baulk=0.6, prio=0.5, preempt=0.3, sched=0.25, qcap=0.4, syscap=0.2, n=[1, 2, 2, 3], ps=0.03, slot=0.05,
                  route_kinds={"matrix": 0.3, "net": 0.6, "pb": 0.1, "fpb": 0.0}, f_boundary=0.05)
    pat3 = dict(pat, k=[3], prio=1.0, preempt=1.0, preempt_opts=["resume", "restart", "resample"], renege=1.0, n=[1, 1, 2], sched=0.0, qcap=0.0,
                ps=0.0, slot=0.0, baulk=0.1)     # three priority levels: a pre-emptor that is pre-empted in turn
    register(Profile("C13", [C13, Ref], [(1, core), (5, pat), (1, pat3), (1, dict(kfa, renege=0.8, baulk=0.5, f_boundary=0.05))],
                     "distinct history digest; non-trivial = >=1 renege or >=1 baulking decision with 0 < p < 1",
                     B(40000, 400000)))
    trk = profile(tracker=1.0, qcap=0.6, ccm=0.4, cct=0.25, renege=0.3, preempt=0.4, n=[1, 2, 2, 3], k=[1, 2, 2, 3], exact=0.05)
    register(Profile("C17", [C17], [(7, trk), (1, dict(trk, **LINGER))],
                     "distinct history digest; non-trivial = >=5 changes of the true tracked state (blocking trackers: and >=1 blockage)",
                     B(40000, 400000)))
    dl = profile(restricted=True, n=[1, 2, 2, 3, 3], k=[1, 1, 2], prio=0.4, preempt=0.0, sched=0.0, renege=0.0, cct=0.0, ccm=0.2, batch=0.2,
                 tracker=0.8, detector=1.0, exact=0.0, baulk=0.1, syscap=0.0, f_infarr=0.0, plan={"time": 0.0, "cust": 0.0, "deadlock": 1.0},
                 route_kinds={"matrix": 0.6, "net": 0.3, "pb": 0.1, "fpb": 0.0}, stepcap=600)
    register(Profile("C18", [C18], [(1, dl)],
                     "distinct history digest; non-trivial = a deadlock was reached after >=1 blockage that was not yet a deadlock",
                     B(20000, 200000)))
    psp = profile(ps=0.8, n=[1, 1, 2], k=[1, 2], prio=0.0, preempt=0.0, sched=0.0, slot=0.0, zero=0.0, inf=0.1, qcap=0.0, syscap=0.0,
                  renege=0.0, exact=0.0, batch=0.35, ccm=0.2, cct=0.0, baulk=0.1, horizon=[10.0, 25.0])
    register(Profile("C19", [C19], [(3, psp), (1, dict(psp, _meta=True))],
                     "distinct history digest; non-trivial = >=1 event with >=2 sharers and >=1 completed PS service during which the occupancy changed; "
                     "metamorphic sub-profile: unlimited PS node with threshold 1 vs FIFO single-server twin on the same tapes (continuous, tie-free)",
                     B(30000, 300000), post=meta_ps, runner=run_c19))
    pr = profile(time={"cont": 1.0}, splits=4, mixed=0.0, plan={"time": 1.0}, exact=0.0, f_zero=0.0, f_batch0=0.3, tdep=0.0, n=[1, 2, 2, 3], k=[1, 2],
                 horizon=[8.0, 20.0], f_infarr=0.05, policies=["uniform"])
    register(Profile("C16", [C16], [(1, pr)],
                     "pairs (one call vs split into 2-5 calls) of the same spec; distinct history digest of the split run; non-trivial = >=1 pause "
                     "while >=1 server was busy; runs in which two events coincide are discarded as out of domain and counted",
                     B(15000, 150000), post=force_split, runner=run_c16))
    register(Profile("C15", [], [(1, wide)],
                     "operation histories: prelude of other simulations (other networks, the same Network object, exact=k runs, runs aborted by an "
                     "invalid sample), then seed(s);build;run twice (modes: repeat / re-use the Network object / two interleaved simulations of one "
                     "Network with deterministic distributions), a fresh interpreter under another PYTHONHASHSEED on ~2% of plans; distinct = distinct "
                     "digest of the run under test; non-trivial = non-empty prelude/between and >=10 records compared",
                     B(8000, 80000), runner=c15.run_c15, gen=c15.gen_c15, features=c15.features15, minimiser=c15.minimise15, wall=60))
    ex = profile(ordinary_only=True, exact=1.0, time={"lat": 0.35, "dec": 0.65}, n=[1, 1, 2], k=[1, 2], inf=0.05, zero=0.0, preempt=0.0,
                 sched=0.35, sched_pre_opts=[False, False, "resume", "restart", "resample"], renege=0.35, prio=0.4, qcap=0.3, tdep=0.0,
                 batch=0.2, horizon=[8.0, 20.0], ccm=0.1, cct=0.0, plan={"time": 0.75, "cust": 0.25}, int_samples=0.4)
    exc = dict(ex, time={"cont": 1.0}, f_zero=0.0, policies=["uniform"], _cont=True)
    ex_pre = dict(ex, k=[2, 2, 3], prio=1.0, preempt=0.8, preempt_opts=["resume", "restart", "resample"], cct=0.5)     # remaining service times in Decimal
    ex_slot = dict(ex, ordinary_only=False, ps=0.0, slot=0.4, sched=0.2)                                   # slot dates in Decimal
    register(Profile("C20", [C20], [(3, ex), (1, exc), (1, ex_pre), (1, ex_slot)],
                     "exact=k runs (k in 10..30) on decimal-lattice tapes: every record field a Decimal, dates = exact rational sums of samples / "
                     "timetable dates; distinct history digest; non-trivial = >=1 pair of mathematically coincident events and >=10 records checked; "
                     "continuous sub-profile: exact run vs floating-point twin within 10^-(k-3)",
                     B(20000, 200000), post=keep_cont, runner=run_c20))
    cap = profile(qcap=0.9, qcap_vals=[INF, 0, 0, 1, 2, 3], syscap=0.4, batch=0.5, baulk=0.4, renege=0.3, jockey=0.5, n=[1, 2, 2, 3], **NOREROUTE)
    register(Profile("C06", [C06, Ref], [(4, dict(core, qcap=0.95, syscap=0.4, batch=0.5)), (4, cap), (1, dict(cap, **LINGER))],
                     "distinct history digest; non-trivial = >=1 rejection and >=1 admission into a node holding capacity-1",
                     B(40000, 400000)))
    blk = profile(restricted=True, n=[2, 2, 3, 4], k=[1, 1, 2], preempt=0.0, sched=0.15, sched_pre_opts=[False], renege=0.1,
                  jockey=0.0, batch=0.2, horizon=[12.0, 30.0, 40.0], f_infarr=0.05,
                  route_kinds={"matrix": 0.5, "net": 0.4, "pb": 0.1, "fpb": 0.0})
    # pre-emptive priorities are not excluded by C07's quantifier; blocked customers must keep their server there too
    blk_pre = dict(blk, prio=0.9, preempt=0.9, k=[2, 2, 3], preempt_opts=["resume", "restart", "resample", "reroute", False])
    register(Profile("C07", [C07, Ref], [(2, dict(core, qcap=1.0, n=[2, 2, 3, 4], qcap_vals=[0, 0, 1, 2, INF])), (6, blk), (2, blk_pre), (1, dict(blk, **LINGER))],
                     "distinct history digest; non-trivial = >=1 blocking and >=1 unblocking (cascade depth probes reported)",
                     B(30000, 300000)))


_load()
