"""cisim — deterministic simulation with fault injection for CiwPython/Ciw.

The engine under test (everything under $CIW_REPO/ciw) runs unmodified; this
package owns the environment: samples, tie-break draws, timetables, callers.
"""
import os
import sys

CIW_REPO = os.path.abspath(os.environ.get("CIW_REPO", "/repo"))


def import_ciw():
    """Import ciw from $CIW_REPO and make sure that is really where it came from."""
    if CIW_REPO not in sys.path[:1]:
        sys.path.insert(0, CIW_REPO)
    import ciw  # noqa

    f = os.path.abspath(ciw.__file__)
    if not f.startswith(CIW_REPO + os.sep):
        raise RuntimeError("ciw imported from %s, expected under %s" % (f, CIW_REPO))
    return ciw
