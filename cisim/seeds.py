"""One integer decides everything: stable sub-seed derivation (never uses hash())."""
import hashlib
import random


def sub(seed, *labels):
    h = hashlib.sha256(repr((int(seed),) + tuple(labels)).encode()).digest()
    return int.from_bytes(h[:8], "big")


def rng(seed, *labels):
    return random.Random(sub(seed, *labels))
