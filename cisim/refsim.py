"""Executable reference model for the tie-free core of Ciw, and the refinement oracle built on it.

Domain: ordinary nodes with a fixed number of servers (or infinitely many), FIFO / LIFO, non-pre-emptive priorities,
finite queue capacities with Type I blocking, system capacity, batch arrivals, baulking, reneging (jockeying only to
uncapacitated nodes or the exit), class change after service, routing by matrix / Probabilistic / Direct / Leave /
Cycle / JSQ-LB(order) / ProcessBased — on continuous (tie-free) tapes, one simulate_until_max_time call.

The model is written from the documentation, not from the engine: a plain event loop over (arrival streams, service
ends, reneging dates).  It consumes the same environment as the engine run — the sample tapes by index, and the
engine's logged uniform draws split by decision site — and must reproduce every data record, field by field, with
exact float equality (both sides compute each date by the same single addition).  A mismatch is attributed to the
property whose clause the differing field belongs to.
"""
from math import isinf

from .core import Oracle, Violation

INF = float("inf")


class OutOfModel(Exception):
    pass


class Cust:
    __slots__ = ("id", "cls", "orig", "prio", "arrival", "start", "end", "stime", "blocked", "dest", "ren", "qarr", "records",
                 "route", "in_service", "seq", "served_cls")

    def __init__(self, i, cls, prio):
        self.id, self.cls, self.prio = i, cls, prio
        self.orig = cls
        self.arrival = self.start = self.end = None
        self.blocked = False
        self.dest = None
        self.ren = INF
        self.records = []
        self.route = None
        self.in_service = False
        self.qarr = None
        self.served_cls = cls


def in_domain(S):
    if S.get("exact") or S.get("cct") or S.get("preempt") and any(S["preempt"]) or any(S["ps"]) or S.get("spf"):
        return False
    if S.get("f5"):
        return False
    if any(d not in ("FIFO", "LIFO", "SIRO") for d in (S.get("disc") or [])):
        return False        # custom disciplines (e.g. one that lets customers linger beside a free server) are outside the model
    for s in S["servers"]:
        if s["k"] not in ("int", "inf") or (s["k"] == "int" and s["c"] < 1):
            return False
    for rt in S["routing"].values():
        if rt["k"] == "fpb":
            return False
        if rt["k"] == "net":
            for x in rt["routers"]:
                if x["k"] in ("jsq", "lb") and x["tb"] != "order":
                    return False
            for d in rt.get("jockey") or []:
                if d != -1 and S["qcap"][d - 1] != INF:
                    return False
    for key in ("arr", "srv", "ren"):
        if S.get(key):
            for c in S[key]:
                for t in S[key][c]:
                    if t is not None and ("vals" in t or t.get("fam") not in ("cont", "lat") or "bad_at" in t or t.get("ints") or t.get("np") or t.get("sdep")):
                        return False
    return True


def choice(values, probs, draw):
    """Inverse CDF: the entry whose cumulative interval [cum(i-1), cum(i)) contains the uniform draw."""
    if set(probs[:-1]) == {0.0} and probs[-1] == 1.0:
        return values[-1], False            # certain outcome: the engine does not draw
    u = draw()
    cum = 0.0
    for v, p in zip(values, probs):
        cum += p
        if u < cum:
            return v, True
    return values[-1], True


class RefSim:
    def __init__(self, S, tapes, draws):
        """tapes: stream key -> list of values in draw order (the tape, independent of who got which value);
        draws: site -> list of uniform draws in order."""
        self.S = S
        self.n = S["n"]
        self.classes = sorted(S["classes"])
        self.tapes = tapes
        self.pos = {}
        self.draws = draws
        self.dpos = {}
        self.t = 0.0
        self.nodes = {j: [] for j in range(1, self.n + 1)}     # customers present, in order of arrival
        self.busy = {j: 0 for j in range(1, self.n + 1)}
        self.blockedq = {j: [] for j in range(1, self.n + 1)}  # FIFO of (from node, cust) blocked towards j
        self.exit = []
        self.N = 0
        self.cyc = {}
        self.pm = S["prio"] or {}
        self.all = []

    # environment --------------------------------------------------------------------------
    def tape(self, kind, node, cls):
        key = (kind, node, cls)
        i = self.pos.get(key, 0)
        vals = self.tapes.get(key)
        if vals is None or i >= len(vals):
            raise OutOfModel("tape %r exhausted at %d" % (key, i))
        self.pos[key] = i + 1
        v = vals[i]
        if isinstance(v, tuple):          # lattice tape: (k, q, tdep, ends_for_ever) evaluated at the current time
            k, q, tdep, ended = v
            if tdep:
                k += int(self.t) % tdep
            v = INF if ended else k / q
        return v

    def draw(self, site):
        def f():
            i = self.dpos.get(site, 0)
            v = self.draws.get(site, [])
            if i >= len(v):
                raise OutOfModel("draws of site %s exhausted" % site)
            self.dpos[site] = i + 1
            return v[i]
        return f

    # static description --------------------------------------------------------------------
    def c(self, j):
        s = self.S["servers"][j - 1]
        return INF if s["k"] == "inf" else s["c"]

    def cap(self, j):
        return self.c(j) + self.S["qcap"][j - 1]

    def pop(self, j):
        return len(self.nodes[j])

    def syspop(self):
        return sum(len(v) for v in self.nodes.values())

    def disc(self, j):
        return (self.S.get("disc") or ["FIFO"] * self.n)[j - 1]

    # mechanics ------------------------------------------------------------------------------
    def choose(self, j):
        waiting = [c for c in self.nodes[j] if not c.in_service]
        if not waiting:
            return None
        best = min(c.prio for c in waiting)
        cands = [c for c in waiting if c.prio == best]
        d = self.disc(j)
        if d == "SIRO":       # service in random order: the engine's uniform draw picks the index
            return cands[int(self.draw("SIRO")() * len(cands))]
        return cands[0] if d == "FIFO" else cands[-1]

    def start(self, j, c):
        c.in_service = True
        c.start = self.t
        c.stime = self.tape("srv", j, c.cls)
        c.end = self.t + c.stime
        if not isinf(self.c(j)):
            self.busy[j] += 1

    def accept(self, j, c):
        c.arrival = self.t
        c.start = c.end = None
        c.in_service = False
        c.blocked = False
        c.dest = None
        c.qarr = self.pop(j)
        ren = self.S.get("ren")
        c.ren = INF
        if ren and ren[c.cls][j - 1] is not None:
            c.ren = self.t + self.tape("ren", j, c.cls)
        elif ren and any(ren[k][j - 1] is not None for k in ren):
            c.ren = INF
        self.nodes[j].append(c)
        if isinf(self.c(j)):
            self.start(j, c)
        else:
            # the node looks for the next customer to serve at every acceptance (under SIRO this consumes a draw
            # even when all servers turn out to be busy)
            x = self.choose(j)
            if x is not None and self.busy[j] < self.c(j):
                self.start(j, x)

    def to_exit(self, c):
        self.exit.append(c)

    def record(self, c, j, ty, **kw):
        rec = dict(id=c.id, node=j, type=ty, cls=kw.get("cls", c.cls), arrival=c.arrival, start=kw.get("start"), end=kw.get("end"),
                   exit=self.t, dest=kw.get("dest"), qarr=kw.get("qarr", c.qarr), qdep=kw.get("qdep"))
        c.records.append(rec)

    def leave_node(self, j, c, dest, served_cls):
        """customer c (service finished, destination dest) moves on now"""
        self.nodes[j].remove(c)
        self.record(c, j, "service", cls=served_cls, start=c.start, end=c.end, dest=dest, qdep=self.pop(j))
        if not isinf(self.c(j)):
            self.busy[j] -= 1
            x = self.choose(j)
            if x is not None:
                self.start(j, x)
        if dest == -1:
            self.to_exit(c)
        else:
            self.accept(dest, c)
        self.unblock(j)

    def unblock(self, j):
        """a place may have freed at node j: the longest-blocked customer towards j takes it"""
        if self.blockedq[j] and self.pop(j) < self.cap(j):
            frm, c = self.blockedq[j].pop(0)
            c.blocked = False
            self.leave_node(frm, c, j, c.served_cls)

    def route(self, j, c):
        rt = self.S["routing"][c.cls]
        k = rt["k"]
        if k == "matrix":
            row = rt["M"][j - 1]
            d, _ = choice(list(range(1, self.n + 1)) + [-1], list(row) + [1 - sum(row)], self.draw("next_node"))
            return d
        if k == "net":
            x = rt["routers"][j - 1]
            kk = x["k"]
            if kk == "prob":
                d, _ = choice(list(x["dests"]) + [-1], list(x["probs"]) + [1 - sum(x["probs"])], self.draw("next_node"))
                return d
            if kk == "leave":
                return -1
            if kk == "direct":
                return x["to"]
            if kk == "cycle":
                i = self.cyc.get((c.cls, j), 0)
                self.cyc[(c.cls, j)] = i + 1
                return x["cycle"][i % len(x["cycle"])]
            if kk in ("jsq", "lb"):
                best, bd = None, None
                for d in x["dests"]:
                    if kk == "lb":
                        m = self.pop(d)
                    else:
                        m = 0 if isinf(self.c(d)) else sum(1 for y in self.nodes[d] if not y.in_service)
                    if best is None or m < best:
                        best, bd = m, d
                return bd
        if k == "pb":
            if c.route is None:
                routes = rt["routes"]
                c.route = list(routes[c.id % len(routes)])
            return c.route.pop(0) if c.route else -1
        raise OutOfModel("routing kind %s" % k)

    def end_service(self, j, c):
        served_cls = c.cls
        ccm = self.S.get("ccm")
        if ccm:
            row = ccm[j - 1][c.cls]
            new, _ = choice(self.classes, [row[x] for x in self.classes], self.draw("change_customer_class"))
            c.cls = new
            c.prio = self.pm.get(new, 0)
        if c.route is None and self.S["routing"][c.cls]["k"] == "pb":
            pass
        d = self.route(j, c)
        c.served_cls = served_cls
        if d == -1 or self.pop(d) < self.cap(d):
            self.leave_node(j, c, d, served_cls)
        else:
            c.blocked = True
            c.dest = d
            self.blockedq[d].append((j, c))

    def renege(self, j, c):
        self.nodes[j].remove(c)
        self.record(c, j, "renege", qdep=self.pop(j))
        rt = self.S["routing"][c.cls]
        d = -1
        if rt["k"] == "net" and rt.get("jockey"):
            d = rt["jockey"][j - 1]
        if d == -1:
            self.to_exit(c)
        else:
            self.accept(d, c)
        self.unblock(j)

    def arrival(self, j, cls):
        b = self.tape("bat", j, cls) if self.S.get("batch") else 1
        for _ in range(b):
            self.N += 1
            c = Cust(self.N, cls, self.pm.get(cls, 0))
            self.all.append(c)
            if self.S["routing"][cls]["k"] == "pb":
                routes = self.S["routing"][cls]["routes"]
                c.route = list(routes[c.id % len(routes)])
            c.arrival = self.t
            if self.pop(j) >= self.cap(j) or self.syspop() >= self.S["syscap"]:
                self.record(c, j, "rejection", qarr=self.pop(j))
                self.to_exit(c)
                continue
            bk = self.S.get("baulk")
            if bk and bk[cls][j - 1] is not None:
                ps = bk[cls][j - 1]["ps"]
                p = ps[min(self.pop(j), len(ps) - 1)]
                u = self.draw("decide_baulk")()
                if u < p:
                    self.record(c, j, "baulk", qarr=self.pop(j))
                    self.to_exit(c)
                    continue
            self.accept(j, c)

    def run(self, T, cap=20000):
        nxt = {}
        for cls in self.S["classes"]:
            for j in range(1, self.n + 1):
                if self.S["arr"][cls][j - 1] is not None:
                    nxt[(j, cls)] = self.tape("arr", j, cls)
        steps = 0
        while True:
            steps += 1
            if steps > cap:
                raise OutOfModel("step cap")
            best = (INF, None)
            for key, d in nxt.items():
                if d < best[0]:
                    best = (d, ("arr", key))
            for j, lst in self.nodes.items():
                finite = not isinf(self.c(j))
                for c in lst:
                    if c.in_service and not c.blocked and c.end < best[0]:
                        best = (c.end, ("end", j, c))
                    if finite and not c.in_service and c.ren < best[0]:
                        best = (c.ren, ("ren", j, c))
            t, ev = best
            if ev is None or not (t < T):
                break
            self.t = t
            if ev[0] == "arr":
                j, cls = ev[1]
                self.arrival(j, cls)
                nxt[(j, cls)] = nxt[(j, cls)] + self.tape("arr", j, cls)
            elif ev[0] == "end":
                self.end_service(ev[1], ev[2])
            else:
                self.renege(ev[1], ev[2])
        return self


class NotEnabled(Exception):
    def __init__(self, prop, clause, msg):
        Exception.__init__(self, msg)
        self.prop, self.clause, self.msg = prop, clause, msg


def _replay(self, events):
    """Trace refinement: the engine's sequence of B-events must be a valid run of the model under SOME resolution of ties.
    Each engine event must be due in the model at exactly that time, and no model event may be due earlier."""
    nxt = {}
    self.t = 0.0
    for cls in self.S["classes"]:
        for j in range(1, self.n + 1):
            if self.S["arr"][cls][j - 1] is not None:
                nxt[(j, cls)] = self.tape("arr", j, cls)
    for t, nid, ty, info, who in events:
        due, what = INF, None
        for key, d in nxt.items():
            if d < due:
                due, what = d, ("arrival", key)
        for j, lst in self.nodes.items():
            finite = not isinf(self.c(j))
            for c in lst:
                if c.in_service and not c.blocked and c.end < due:
                    due, what = c.end, ("end_service", j, c.id)
                if finite and not c.in_service and c.ren < due:
                    due, what = c.ren, ("renege", j, c.id)
        if due < t:
            prop = {"arrival": "C10", "end_service": "C10", "renege": "C13"}[what[0]]
            raise NotEnabled(prop, "ref-due-event-skipped", "the engine executes %s at node %s at t=%r although %r has been due since %r" % (ty, nid, t, what, due))
        self.t = t
        if ty == "arrival":
            j, cls = info
            if nxt.get((j, cls)) != t:
                raise NotEnabled("C10", "ref-arrival-not-due", "arrival of stream %r executed at %r, due at %r by the sum of its samples" % (info, t, nxt.get((j, cls))))
            self.arrival(j, cls)
            nxt[(j, cls)] = nxt[(j, cls)] + self.tape("arr", j, cls)
        elif ty == "end_service":
            c = next((x for x in self.nodes[nid] if x.id == who), None)
            if c is None or not c.in_service or c.blocked or c.end != t:
                raise NotEnabled("C10", "ref-service-end-not-due", "end of service of ind %s at node %s executed at %r; model: %s" % (
                    who, nid, t, "not there" if c is None else "in_service=%s blocked=%s end=%r" % (c.in_service, c.blocked, c.end)))
            self.end_service(nid, c)
        elif ty == "renege":
            c = next((x for x in self.nodes[nid] if x.id == who), None)
            if c is None or c.in_service or c.ren != t:
                raise NotEnabled("C13", "ref-renege-not-due", "renege of ind %s at node %s executed at %r; model: %s" % (
                    who, nid, t, "not there" if c is None else "in_service=%s reneging date %r" % (c.in_service, c.ren)))
            self.renege(nid, c)
        else:
            raise OutOfModel("event type %s" % ty)
    return self


RefSim.replay = _replay


FIELDS = [
    # (reference key, record attribute, property, clause)
    ("type", "record_type", None, None),
    ("node", "node", "C03", "ref-record-node"),
    ("arrival", "arrival_date", "C10", "ref-arrival-date"),
    ("cls", "customer_class", "C09", "ref-class"),
    ("start", "service_start_date", "C05", "ref-service-start"),
    ("end", "service_end_date", "C10", "ref-service-end"),
    ("exit", "exit_date", "C07", "ref-exit-date"),
    ("dest", "destination", "C09", "ref-destination"),
    ("qarr", "queue_size_at_arrival", "C06", "ref-queue-size-at-arrival"),
    ("qdep", "queue_size_at_departure", "C01", "ref-queue-size-at-departure"),
]


class Ref(Oracle):
    """Refinement oracle: the engine's event sequence must be a valid run of the reference model, and the engine's
    records must equal the model's, field by field."""
    prop = "REF"

    def __init__(self, R):
        Oracle.__init__(self, R)
        self.domain = in_domain(R.S)
        self.events = []
        self.done = False

    def after(self, node, nxt):
        if not self.domain:
            return
        R = self.R
        who = None
        if R.ev_type == "end_service":
            for ev in R.log.micro[R.micro_from:]:
                if ev[2] == "blk" and ev[3] == R.ev_nid:
                    who = ev[5]
                    break
                if ev[2] == "rel" and ev[3] == R.ev_nid:
                    who = ev[5]
                    break
        elif R.ev_type == "renege":
            for ev in R.log.micro[R.micro_from:]:
                if ev[2] == "ren":
                    who = ev[5]
                    break
        self.events.append((R.t, R.ev_nid, R.ev_type, R.ev_info, who))

    def segment_end(self, op):
        R = self.R
        if not self.domain or self.done:
            return
        if op[0] != "cap" and R.seg < len(R.S["plan"]):
            return
        self.done = True
        S = R.S
        import random
        tapes = {}
        for kind, key in (("arr", "arr"), ("srv", "srv"), ("ren", "ren"), ("bat", "batch")):
            if S.get(key):
                for c in S[key]:
                    for i, t in enumerate(S[key][c]):
                        if t is None:
                            continue
                        rng = random.Random(t["seed"])
                        n = len(R.log.samples.get((kind, i + 1, c), [])) + 50
                        if t["fam"] == "cont":
                            vals = [rng.uniform(t["lo"], t["hi"]) for _ in range(n)]
                        elif t["fam"] == "int":
                            vals = [rng.randint(t["kmin"], t["kmax"]) for _ in range(n)]
                        elif t["fam"] == "lat":
                            vals = [(rng.randint(t["kmin"], t["kmax"]), t["q"], t.get("tdep", 0), False) for _ in range(n)]
                        else:
                            return
                        if "inf_after" in t:
                            if t["fam"] == "lat":
                                vals = [(v if k < t["inf_after"] else (v[0], v[1], v[2], True)) for k, v in enumerate(vals)]
                            else:
                                vals = [(v if k < t["inf_after"] else INF) for k, v in enumerate(vals)]
                        tapes[(kind, i + 1, c)] = vals
        draws = {}
        for d in R.log.draws:
            draws.setdefault(d[2], []).append(d[4])
        try:
            M = RefSim(S, tapes, draws).replay(self.events)
        except OutOfModel as e:
            R.counts["REF:out_of_model"] += 1
            return
        except NotEnabled as e:
            raise Violation(e.prop, e.clause, e.msg)
        R.counts["REF:runs_compared"] += 1
        eng = {}
        for nd in R.sim.nodes[1:]:
            for i in nd.all_individuals:
                eng[i.id_number] = i
        nrec = 0
        for c in M.all:
            ind = eng.get(c.id)
            if ind is None:
                raise Violation("C10", "ref-customer-missing", "the reference model created customer %s at %r, the engine has no such customer" % (c.id, c.arrival))
            er = ind.data_records
            for k, mr in enumerate(c.records):
                if k >= len(er):
                    raise Violation("C03", "ref-record-missing", "customer %s: the reference model has record %d %r, the engine has only %d records" % (c.id, k, mr, len(er)))
                r = er[k]
                nrec += 1
                if mr["type"] != r.record_type:
                    prop = "C13" if "renege" in (mr["type"], r.record_type) or "baulk" in (mr["type"], r.record_type) else \
                           ("C06" if "rejection" in (mr["type"], r.record_type) else "C03")
                    raise Violation(prop, "ref-record-type", "customer %s record %d: reference %r, engine %r" % (c.id, k, mr, tuple(r)))
                for key, attr, prop, clause in FIELDS[1:]:
                    mv = mr[key]
                    ev = getattr(r, attr)
                    if mv is None:
                        continue
                    if mv != ev:
                        if key == "start" and any(o.records[kk]["start"] == ev for o in M.all for kk in range(len(o.records)) if o.records[kk]["node"] == mr["node"] and o is not c):
                            prop, clause = "C08", "ref-service-order"
                        if key == "exit" and mr["type"] == "renege":
                            prop, clause = "C13", "ref-renege-date"
                        raise Violation(prop, clause, "customer %s record %d (%s at node %s): reference model %s=%r, engine %r | reference %r | engine %r" % (
                            c.id, k, mr["type"], mr["node"], key, mv, ev, mr, tuple(r)))
            if len(er) > len(c.records):
                raise Violation("C03", "ref-extra-record", "customer %s: engine has %d records, the reference model %d; extra %r" % (c.id, len(er), len(c.records), tuple(er[len(c.records)])))
        if len(eng) != len(M.all):
            raise Violation("C10", "ref-customer-count", "engine created %d customers, the reference model %d" % (len(eng), len(M.all)))
        R.counts["REF:records_compared"] += nrec
