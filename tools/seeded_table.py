"""Print the markdown table of seeded changes (DESIGN.md section 11.6) from seeded/*/meta.json and notes.md."""
import glob, json, os, re
rows = []
for d in sorted(glob.glob(os.path.join(os.path.dirname(os.path.dirname(os.path.abspath(__file__))), "seeded", "*"))):
    m = json.load(open(os.path.join(d, "meta.json")))
    notes = open(os.path.join(d, "notes.md")).read() if os.path.exists(os.path.join(d, "notes.md")) else ""
    first = [l.strip("# ").strip() for l in notes.splitlines() if l.strip() and not l.startswith("PROPERTY:")][:1]
    first = first[0][:110] if first else ""
    clause = ""
    for p in m.get("caught_by", []):
        f = m["checks"].get(p, {}).get("first", [])
        if f:
            mm = re.match(r"violation (\S+)", f[0])
            clause = mm.group(1) if mm else ""
            break
    rows.append("| %s | %s | %s | %s | %s |" % (os.path.basename(d), m["property"], ", ".join(sorted(set(m.get("caught_by", [])), key=m.get("caught_by", []).index)) or "**gap**", clause or m.get("missed_reason", ""), first))
print("| id | breaks | caught by | first clause reported | what was changed |\n|---|---|---|---|---|")
print("\n".join(rows))
