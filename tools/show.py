import json,sys
for f in sys.argv[1:]:
    d=json.load(open(f))
    s=d['spec']
    print('=====',f.split('/')[-1], d['clause'],'runs',d.get('minimise_runs'),'step',d['expected']['step'])
    print(d['msg'][:300])
    def tape(t):
        if t is None: return None
        if 'vals' in t: return t['vals']
        return t
    out={}
    for k,v in s.items():
        if v in (None,False) or k in ('v','clock0','mode','ps_thr'): continue
        if k in ('arr','srv','batch','ren'):
            v={c:[tape(t) for t in row] for c,row in v.items()}
        if k=='draws' and 'vals' in v: v=v['vals']
        if k=='ps' and not any(v): continue
        out[k]=v
    print(json.dumps(out,sort_keys=True))
