"""Confirm and evaluate a seeded change produced by a sub-agent.

  python tools/seeded.py <dir with patch.diff, demo.py, notes.md> <Cxx> <name> [--also C14,C01] [--runs N] [--keep]

Steps (all in a scratch copy of /repo at its current HEAD, removed afterwards):
  1. patch applies;  2. the repo's test suite passes with it;  3. demo passes on the unmodified tree and fails on the modified one;
  4. run ./check Cxx (and the --also checks) against the modified copy and report which catch it.
With --keep and all confirmations OK the change is stored as /verif/seeded/<name>/ {patch.diff, demo.py, notes.md, meta.json}.
"""
import json
import os
import shutil
import subprocess
import sys
import tempfile

HERE = os.path.dirname(os.path.dirname(os.path.abspath(__file__)))
PY = "/venv/bin/python"


def sh(cmd, **kw):
    return subprocess.run(cmd, capture_output=True, text=True, **kw)


def main():
    args = sys.argv[1:]
    src, prop, name = args[0], args[1], args[2]
    also = []
    runs = "20000"
    keep = "--keep" in args
    if "--also" in args:
        also = args[args.index("--also") + 1].split(",")
    if "--runs" in args:
        runs = args[args.index("--runs") + 1]
    patch = os.path.join(src, "patch.diff")
    demo = os.path.join(src, "demo.py")
    tmp = tempfile.mkdtemp(prefix="ciwseed.")
    meta = {"property": prop, "name": name, "source": src}
    try:
        repo = os.path.join(tmp, "repo")
        os.makedirs(repo)
        files = sh(["git", "-C", "/repo", "ls-files"]).stdout.split()
        for f in files:
            if f.startswith("docs/"):
                continue
            dst = os.path.join(repo, f)
            os.makedirs(os.path.dirname(dst) or repo, exist_ok=True)
            shutil.copy(os.path.join("/repo", f), dst)
        r = sh(["patch", "-p1", "-s", "-d", repo, "-i", os.path.abspath(patch)])
        meta["applies"] = r.returncode == 0
        if r.returncode != 0:
            print("patch does not apply:", r.stdout[-500:], r.stderr[-500:])
            return 1
        t = sh([PY, "-m", "pytest", "-q", "-x", "-p", "no:cacheprovider", "ciw/tests"], cwd=repo)
        meta["tests_pass_with_change"] = t.returncode == 0
        print("tests with change:", t.stdout.strip().splitlines()[-1] if t.stdout.strip() else t.stderr[-300:])
        # demos locate ciw via argv[1], PYTHONPATH, cwd or ../../ relative to themselves: satisfy all four
        un = os.path.join(tmp, "unchanged")
        os.makedirs(os.path.join(un, "out", "A"))
        os.symlink("/repo/ciw", os.path.join(un, "ciw"))
        os.makedirs(os.path.join(repo, "out", "A"), exist_ok=True)
        shutil.copy(demo, os.path.join(un, "out", "A", "demo.py"))
        shutil.copy(demo, os.path.join(repo, "out", "A", "demo.py"))
        d0 = sh([PY, os.path.join(un, "out", "A", "demo.py"), "/repo"], timeout=600, env=dict(os.environ, PYTHONPATH="/repo"), cwd=un)
        d1 = sh([PY, os.path.join(repo, "out", "A", "demo.py"), repo], timeout=600, env=dict(os.environ, PYTHONPATH=repo), cwd=repo)
        meta["demo_on_unchanged"] = d0.returncode
        meta["demo_on_changed"] = d1.returncode
        print("demo unchanged: exit %d %s | changed: exit %d %s" % (d0.returncode, d0.stdout.strip()[-80:], d1.returncode, d1.stdout.strip()[-160:]))
        caught = []
        missed = []
        detail = {}
        for p in [prop] + also:
            env = dict(os.environ, CIW_REPO=repo, VERIF_OUT=os.path.join(tmp, "out_" + p), VERIF_RUNS=runs)
            out = sh([os.path.join(HERE, "check"), p, "--tier", "quick"], env=env, timeout=3000)
            v = [l for l in out.stdout.splitlines() if l.startswith("violation ")]
            ok = out.returncode == 1 and ("VIOLATION property=%s" % p) in out.stdout
            (caught if ok else missed).append(p)
            detail[p] = {"exit": out.returncode, "first": [x[:200] for x in v[:3]], "summary": out.stdout.strip().splitlines()[-1][:300] if out.stdout.strip() else ""}
            print("check %s -> exit %d %s" % (p, out.returncode, (v[0][:160] if v else detail[p]["summary"])))
        meta["caught_by"] = caught
        meta["not_caught_by"] = missed
        meta["checks"] = detail
        meta["what_i_ran"] = "tools/seeded.py: patch applied to scratch copy of /repo HEAD; pytest ciw/tests; demo.py on /repo and on the copy; ./check <prop> --tier quick with CIW_REPO=<copy> VERIF_RUNS=%s" % runs
        good = meta["applies"] and meta["tests_pass_with_change"] and d0.returncode == 0 and d1.returncode != 0
        meta["confirmed"] = good
        print("confirmed:", good, "| caught by:", caught, "| missed by:", missed)
        if keep and good:
            dst = os.path.join(HERE, "seeded", name)
            os.makedirs(dst, exist_ok=True)
            for f in ("patch.diff", "demo.py", "notes.md"):
                if os.path.exists(os.path.join(src, f)):
                    shutil.copy(os.path.join(src, f), os.path.join(dst, f))
            notes = os.path.join(src, "notes.md")
            meta["needs_to_manifest"] = open(notes).read()[:1500] if os.path.exists(notes) else ""
            json.dump(meta, open(os.path.join(dst, "meta.json"), "w"), indent=1)
        return 0
    finally:
        shutil.rmtree(tmp, ignore_errors=True)


if __name__ == "__main__":
    sys.exit(main())
