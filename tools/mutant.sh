#!/bin/sh
# tools/mutant.sh <patch.diff> <Cxx> [runs]  — apply a patch to a scratch copy of /repo and run the check against it
set -e
PATCH="$(readlink -f "$1")"; PROP="$2"; RUNS="${3:-20000}"
D="$(mktemp -d /tmp/ciwmut.XXXXXX)"
trap 'rm -rf "$D"' EXIT
mkdir -p "$D/repo" "$D/out"
(cd /repo && git ls-files -z | grep -zv '^docs/' | xargs -0 cp --parents -t "$D/repo")
(cd "$D/repo" && patch -p1 -s < "$PATCH")
cd /verif
set +e
CIW_REPO="$D/repo" VERIF_OUT="$D/out" VERIF_RUNS="$RUNS" timeout 900 ./check "$PROP" --tier quick > "$D/log" 2>&1
RC=$?
grep -E "^(violation|VIOLATION|HARNESS|C[0-9]+ quick)" "$D/log" | cut -c1-260 | head -8
echo "mutant $(basename "$PATCH") on $PROP -> exit $RC"
exit 0
