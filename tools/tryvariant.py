"""Try a profile variant for a property before adopting it:  python tools/tryvariant.py Cxx <variant index> '<json overrides>' [runs]
Runs the property's oracles on specs generated from variant[index] + overrides and prints status / clause counters
(on the unchanged tree every clause that shows up is either a defect or a false alarm to be understood first)."""
import collections, json, os, random, sys
from concurrent.futures import ProcessPoolExecutor
import multiprocessing

sys.path.insert(0, os.path.dirname(os.path.dirname(os.path.abspath(__file__))))


def work(args):
    prop, idx, over, lo, hi = args
    from cisim.profiles import PROFILES
    from cisim.gen import gen_spec, sanitize, ALL_RULES, features
    from cisim.seeds import sub
    pr = PROFILES[prop]
    P = dict(pr.variants[idx][1])
    for k, v in over.items():
        P[k] = v
    st = collections.Counter()
    cl = collections.Counter()
    ex = {}
    feat = collections.Counter()
    probe = 0
    for i in range(lo, hi):
        r = random.Random(sub(99, prop, "try", i))
        S = gen_spec(r, P)
        if not P.get("allow_known"):
            S = sanitize(S, P.get("rules", ALL_RULES))
        if pr.post is not None:
            S = pr.post(S, r, "quick")
        res = pr.run(S)
        st[res["status"]] += 1
        probe += 1 if res.get("probe") else 0
        for f in features(S):
            feat[f] += 1
        if res["status"] in ("violation", "crash", "hang", "harness"):
            key = "%s.%s" % (res.get("prop"), res.get("clause"))
            cl[key] += 1
            if key not in ex:
                ex[key] = (i, res.get("msg", "")[:300], S)
    return st, cl, ex, feat, probe


def main():
    prop, idx, over = sys.argv[1], int(sys.argv[2]), json.loads(sys.argv[3])
    n = int(sys.argv[4]) if len(sys.argv) > 4 else 4000
    for k, v in list(over.items()):
        if v == "INF":
            over[k] = float("inf")
    chunk = 100
    tasks = [(prop, idx, over, lo, min(lo + chunk, n)) for lo in range(0, n, chunk)]
    st, cl, ex, feat, probe = collections.Counter(), collections.Counter(), {}, collections.Counter(), 0
    with ProcessPoolExecutor(max_workers=int(os.environ.get("VERIF_WORKERS", 12)), mp_context=multiprocessing.get_context("fork")) as e:
        for a, b, c, d, p in e.map(work, tasks):
            st.update(a)
            cl.update(b)
            feat.update(d)
            probe += p
            for k, v in c.items():
                ex.setdefault(k, v)
    print("statuses", dict(st), "probe-positive", probe)
    print("features", {k: v for k, v in sorted(feat.items()) if not k.startswith(("tr:", "nr:", "rt:"))})
    for k, v in cl.most_common():
        i, msg, S = ex[k]
        print("%5d  %s   e.g. run %d: %s" % (v, k, i, msg))
        out = "/tmp/try_%s_%s.json" % (prop, k.replace("/", "_").replace(":", "_"))
        json.dump({"property": prop, "spec": S, "expected": {}}, open(out, "w"))
        print("        spec ->", out)


if __name__ == "__main__":
    main()
