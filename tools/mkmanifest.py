"""Regenerate MANIFEST.json from the registered profiles (run from /verif)."""
import json, os, sys
sys.path.insert(0, os.path.dirname(os.path.dirname(os.path.abspath(__file__))))
from cisim.profiles import PROFILES, LEVEL_TEXT

ALL = ["C%02d" % i for i in range(1, 21)]
BASE = "cd /repo && /venv/bin/python -m pytest -ra -q -p no:cacheprovider --timeout=900 --continue-on-collection-errors"
m = {
    "version": 1,
    "setup_cmd": "/venv/bin/python -B -c \"import sys; sys.path.insert(0,'/verif'); import cisim.profiles; print('cisim ok, ciw from', cisim.profiles.run_spec.__globals__['ciw'].__file__)\"",
    "hooks": {
        "guard": "CIW_VERIF",
        "enable": "no source hooks: every seam is a public extension point of Ciw (Distribution/StateTracker/NoDetection subclasses, Simulation.event_and_return_nextnode override, callables, module-attribute DrawTap bound in the harness process only); the guard name is reserved and unused",
        "baseline_off_cmd": BASE,
        "source_commits": [],
        "add_only": True,
    },
    "engines": [{"name": "cisim", "path": "/verif/cisim", "serves_properties": sorted(PROFILES),
                 "kind_free_text": "deterministic simulation with fault injection: seeded swarm generator of networks+tapes+plans, real Ciw engine stepped under online monitors and history oracles, delta-debugging minimiser, replay files"}],
    "checks": [],
    "not_applicable": [],
    "notes": "Exit codes: 0 held on everything explored (KNOWN-FINDING lines for open findings), 1 VIOLATION, 2 harness error. VERIF_SEED / VERIF_TIER honoured; VERIF_RUNS / VERIF_WALL / VERIF_WORKERS override budgets. Engine under test is $CIW_REPO (default /repo), imported from the working tree.",
}
for p in ALL:
    if p in PROFILES:
        pr = PROFILES[p]
        m["checks"].append({
            "property_id": p,
            "quick_cmd": "timeout 600 ./check %s --tier quick" % p,
            "thorough_cmd": "timeout 3600 ./check %s --tier thorough" % p,
            "evidence_file": "/verif/evidence/%s.json" % p,
            "replay_cmd_template": "./check %s --replay {path}" % p,
            "engine": "cisim",
            "level_claimed": {"category": "exploration", "text": LEVEL_TEXT.get(p, LEVEL_TEXT["*"]), "design_ref": "DESIGN.md section 5, " + p},
            "level_note": "trusted base: the harness (generator, seams, oracles) and CPython; assumes bounded sizes (<=4 nodes, <=3 classes, bounded horizon) are representative; a clean batch is evidence, not proof",
            "technique": "deterministic simulation with fault injection (seeded schedule/tape/fault search, online invariants + history oracles, minimised replay)",
        })
    else:
        m["not_applicable"].append({"property_id": p, "reason": "not claimed yet: the check for this property is still under construction in this round (the technique applies, see DESIGN.md section 5)"})
json.dump(m, open("MANIFEST.json", "w"), indent=1)
print("checks:", [c["property_id"] for c in m["checks"]])
